"""numpy facade installed as the module global `np` of xdeps.optimize.optimize and
xdeps.optimize.jacobian in the harness process.  It delegates to numpy except
where numpy would force float64 on symbolic values or truncate comparisons.
Validated at set-up by running concrete problems through it (bit-identical to
plain numpy, see checks/optcommon.validate_facade).
"""
from fractions import Fraction

import numpy as np

from .values import SymReal, SymInt, SymBool, has_sym


class NPFacade:
    def __getattr__(self, k):
        return getattr(np, k)

    def array(self, obj, dtype=None, **kw):
        if has_sym(obj):
            return np.array(obj, dtype=object, **kw)
        if dtype in (float, np.float64):
            # a float64 request in code that later mixes in symbolic values (x /= weight):
            # keep Python floats in an object array (same IEEE operations element-wise)
            return np.array(np.array(obj, dtype=np.float64, **kw), dtype=object)
        return np.array(obj, dtype=dtype, **kw)

    def zeros(self, shape, dtype=None, **kw):
        if dtype is None:
            return _zeros_obj(shape)
        return np.zeros(shape, dtype=dtype, **kw)

    def zeros_like(self, a, **kw):
        return np.zeros_like(a, **kw)

    def full(self, shape, value, **kw):
        return np.full(shape, value, **kw)

    def allclose(self, a, b, rtol=1e-5, atol=1e-8):
        if has_sym(a) or has_sym(b):
            a = np.asarray(a, dtype=object)
            b = np.asarray(b, dtype=object)
            if a.shape != b.shape:
                return bool(np.allclose(a.astype(float), b.astype(float), rtol=rtol, atol=atol))
            return all(bool(abs(x - y) <= atol + rtol * abs(y)) for x, y in zip(a.flat, b.flat))
        return np.allclose(a, b, rtol=rtol, atol=atol)

    def isscalar(self, x):
        return isinstance(x, (SymReal, SymInt, Fraction)) or np.isscalar(x)

    def argmin(self, a):
        a = list(a)
        if not any(has_sym(x) for x in a):
            return int(np.argmin(a))
        best = 0
        for i in range(1, len(a)):
            if a[i] < a[best]:
                best = i
        return best

    def log10(self, x):
        if isinstance(x, SymReal):
            import z3
            from .values import _R
            f = z3.Function("log10f", _R, _R)
            return SymReal(f(x.e))
        if isinstance(x, Fraction):
            import math
            return type(x)(math.log10(float(x)))
        return np.log10(x)

    def sqrt(self, x):
        if isinstance(x, (SymReal, Fraction)) and hasattr(x, "sqrt"):
            return x.sqrt()
        if isinstance(x, np.ndarray) and x.dtype == object:
            return np.array([self.sqrt(e) for e in x.flat], dtype=object).reshape(x.shape)
        if isinstance(x, float):
            return np.float64(x) ** 0.5 if x >= 0 else np.sqrt(x)
        return np.sqrt(x)


def _zeros_obj(shape):
    a = np.empty(shape, dtype=object)
    a.fill(0.0)
    return a


FACADE = NPFacade()

"""symx: a small symbolic executor for running the *real* xdeps code on z3 terms.

Execution model: decision-prefix re-execution (as CrossHair/KLEE do for
interpreted code).  `Explorer.explore(fn)` runs `fn(ex)` repeatedly; every
symbolic decision taken during a run is recorded on a stack; after a run the
deepest decision with an untried alternative is flipped and `fn` runs again,
replaying the prefix.  Exploration is complete when the stack is empty.

Decisions
  branch(cond)      bool() of a symbolic condition; both sides are checked for
                    feasibility with the solver under the path condition.
  choose(n)         shape choice in range(n); no solver call.
  concretize(e)     CPython needs a machine value (hash / __index__): the solver
                    enumerates every feasible value in a stated range.
Obligations
  assume(cond)      precondition (path dropped when unsatisfiable)
  prove(cond, ...)  assertion: check(pc & ~cond); unsat = discharged,
                    sat = counterexample (returned as a CounterExample),
                    unknown = inconclusive.

Concrete mode: the same harness is run with `ex.mode == 'concrete'`; the value
factories return plain Python numbers taken from a model, `choose` follows the
recorded choices and `prove` evaluates a Python bool.  This is how every
counterexample is replayed on the real code before it is reported.
"""
import itertools
import time
from fractions import Fraction

import z3


class Abort(BaseException):
    """Engine steering: the current path is dropped (infeasible, assumption
    failed, cut).  BaseException so that `except Exception` in the code under
    test never swallows it."""


class Inconclusive(BaseException):
    """The engine cannot decide (unknown, unsupported operation, budget)."""


class CounterExample:
    def __init__(self, what, values, funcs, choices, detail=None):
        self.what = what
        self.values = values      # name -> python number (int / Fraction / bool)
        self.funcs = funcs        # name -> {'table': [[args, val]...], 'else': val}
        self.choices = choices    # choose results (ints) and concretize results (['e', v]), in order
        self.detail = detail or {}

    def to_json(self):
        def enc(v):
            if isinstance(v, bool):
                return v
            if isinstance(v, int):
                return v
            if isinstance(v, Fraction):
                return {"q": [v.numerator, v.denominator]}
            return repr(v)
        return {
            "what": self.what,
            "values": {k: enc(v) for k, v in self.values.items()},
            "funcs": {k: {"table": [[[enc(a) for a in args], enc(val)] for args, val in f["table"]],
                          "else": enc(f["else"])} for k, f in self.funcs.items()},
            "choices": list(self.choices),
            "detail": self.detail,
        }

    @staticmethod
    def dec(v):
        if isinstance(v, dict) and "q" in v:
            return Fraction(v["q"][0], v["q"][1])
        return v

    @classmethod
    def from_json(cls, d):
        dec = cls.dec
        return cls(
            d["what"],
            {k: dec(v) for k, v in d["values"].items()},
            {k: {"table": [[tuple(dec(a) for a in args), dec(val)] for args, val in f["table"]],
                 "else": dec(f["else"])} for k, f in d["funcs"].items()},
            d["choices"], d.get("detail"))


def z3val_to_py(v):
    if z3.is_int_value(v):
        return v.as_long()
    if z3.is_rational_value(v):
        return Fraction(v.numerator_as_long(), v.denominator_as_long())
    if z3.is_true(v):
        return True
    if z3.is_false(v):
        return False
    if z3.is_algebraic_value(v):
        a = v.approx(30)
        return Fraction(a.numerator_as_long(), a.denominator_as_long())
    return str(v)


class Stats:
    FIELDS = ("paths", "decisions", "q_feas", "q_assert", "q_conc", "unsat", "sat",
              "unknown", "dropped", "out_of_bounds", "spurious", "replayed", "proved")

    def __init__(self):
        for f in self.FIELDS:
            setattr(self, f, 0)
        self.solver_s = 0.0

    def as_dict(self):
        d = {f: getattr(self, f) for f in self.FIELDS}
        d["solver_s"] = round(self.solver_s, 3)
        return d

    @staticmethod
    def merge(dicts):
        out = {f: 0 for f in Stats.FIELDS}
        out["solver_s"] = 0.0
        for d in dicts:
            for k in out:
                out[k] += d.get(k, 0)
        out["solver_s"] = round(out["solver_s"], 3)
        return out


class Explorer:
    def __init__(self, max_paths=2_000_000, query_timeout_ms=60_000, logic=None):
        self.mode = "sym"
        self.max_paths = max_paths
        self.query_timeout_ms = query_timeout_ms
        self.logic = logic
        self.refine_timeout_ms = 4000
        self.max_cex = 6
        self.stopped_early = False
        self.stats = Stats()
        self.stack = []
        self.pos = 0
        self.solver = None
        self.fresh = None
        self.funcs = {}           # name -> z3 FuncDecl (sym mode)
        self.symbols = {}         # name -> z3 const created on this path
        self.choices = []         # choose/concretize results on this path
        self.cexs = []            # CounterExamples found (sym mode)
        self.samples = []
        self.notes = {}
        self.transcript = []      # (key, text) records emitted by harnesses (C20)
        # concrete mode state
        self.cvalues = {}
        self.cfuncs = {}
        self.cchoices = []
        self.cfailed = []         # failed assertions in concrete mode
        self.real_as = Fraction   # how concrete reals are materialised

    # ------------------------------------------------------------------ run
    def explore(self, fn, prefix=None, depth_limit=None):
        """Run fn(ex) over every feasible path. Returns True when exhausted.

        prefix: list of [kind, value] decisions that are forced (work splitting:
        a pilot run with depth_limit=D records every decision prefix of length D
        in self.frontier; each is then explored by a separate worker)."""
        assert self.mode == "sym"
        self.stack = []
        self.depth_limit = depth_limit
        self.frontier = []
        self.nforced = 0
        if prefix:
            for kind, v in prefix:
                self.stack.append(["b", v, False] if kind == "b" else [kind, 0, [v]])
            self.nforced = len(prefix)
        while True:
            self._begin_path()
            try:
                fn(self)
            except Abort:
                self.stats.dropped += 1
            self.stats.paths += 1
            if len(self.cexs) >= self.max_cex:
                self.stopped_early = True       # enough counterexamples for this case
                return False
            if self.stats.paths >= self.max_paths:
                raise Inconclusive(f"path budget {self.max_paths} exhausted")
            st = self.stack
            del st[self.pos:]
            while len(st) > self.nforced and not self._advance(st[-1]):
                st.pop()
            if len(st) <= self.nforced:
                return True

    def _begin_path(self):
        self.solver = z3.Solver() if self.logic is None else z3.SolverFor(self.logic)
        self.solver.set("timeout", self.query_timeout_ms)
        self.pos = 0
        self.fresh = itertools.count()
        self.symbols = {}
        self.choices = []
        self.path_memo = {}

    @staticmethod
    def _advance(entry):
        """Move a stack entry to its next alternative; False when none left."""
        kind = entry[0]
        if kind == "b":
            if entry[2]:
                entry[1] = not entry[1]
                entry[2] = False
                return True
            return False
        # 'c' (choose) and 'e' (enumerated values): entry = [kind, idx, values]
        if entry[1] + 1 < len(entry[2]):
            entry[1] += 1
            return True
        return False

    def run_concrete(self, fn, cex, real_as=Fraction):
        """Replay: run fn with concrete values from a counterexample."""
        self.mode = "concrete"
        self.cvalues = dict(cex.values)
        self.cfuncs = dict(cex.funcs)
        self.cchoices = list(cex.choices)
        self.cpos = 0
        self.cfailed = []
        self.real_as = real_as
        self.fresh = itertools.count()
        self.path_memo = {}
        try:
            fn(self)
        except Abort:
            pass
        return self.cfailed

    # ------------------------------------------------------------- solver io
    def _check(self, kind, *assumptions):
        t = time.perf_counter()
        r = self.solver.check(*assumptions)
        self.stats.solver_s += time.perf_counter() - t
        setattr(self.stats, kind, getattr(self.stats, kind) + 1)
        if r == z3.unsat:
            self.stats.unsat += 1
        elif r == z3.sat:
            self.stats.sat += 1
        else:
            self.stats.unknown += 1
        return r

    def add(self, cond):
        if self.mode == "sym":
            self.solver.add(cond)

    # ------------------------------------------------------------- decisions
    def branch(self, cond, refine=False):
        """refine=True: a side that is feasible only thanks to the uninterpreted
        abstraction of products/inverses/roots is re-checked with their axioms."""
        assert self.mode == "sym", "symbolic branch in concrete mode"
        cond = z3.simplify(cond)
        if z3.is_true(cond):
            return True
        if z3.is_false(cond):
            return False
        i = self.pos
        if i < len(self.stack):
            e = self.stack[i]
            assert e[0] == "b", f"replay desync: expected branch, stack has {e[0]}"
            v = e[1]
            self.pos += 1
            self.solver.add(cond if v else z3.Not(cond))
            return v
        self._frontier_check()
        rt = self._check("q_feas", cond)
        if rt == z3.unknown:
            raise Inconclusive(f"unknown feasibility: {self.solver.reason_unknown()}")
        can_t = rt == z3.sat
        if can_t and refine:
            ax = self._nonlinear_axioms(cond)
            if ax:
                self.solver.push()
                self.solver.add(*ax)
                r2 = self._check("q_feas", cond)
                self.solver.pop()
                if r2 == z3.unsat:
                    can_t = False
        if can_t:
            rf = self._check("q_feas", z3.Not(cond))
            if rf == z3.unknown:
                raise Inconclusive(f"unknown feasibility: {self.solver.reason_unknown()}")
            can_f = rf == z3.sat
        else:
            can_f = True   # pc is satisfiable (invariant), so the other side is
        v = can_t
        self.stack.append(["b", v, can_t and can_f])
        self.stats.decisions += 1
        self.pos += 1
        self.solver.add(cond if v else z3.Not(cond))
        return v

    def choose(self, n, label=None):
        """Shape decision: an int in range(n); every value is explored."""
        if n <= 0:
            raise Abort()
        if self.mode == "concrete":
            # concretize results are recorded as ["e", v]: concrete values never ask for them
            while isinstance(self.cchoices[self.cpos], (list, tuple)):
                self.cpos += 1
            v = self.cchoices[self.cpos]
            self.cpos += 1
            return v
        i = self.pos
        if i < len(self.stack):
            e = self.stack[i]
            assert e[0] == "c", f"replay desync: expected choose, stack has {e[0]}"
        else:
            self._frontier_check()
            e = ["c", 0, range(n)]
            self.stack.append(e)
            self.stats.decisions += 1
        self.pos += 1
        v = e[2][e[1]]
        self.choices.append(v)
        return v

    def _frontier_check(self):
        """Pilot runs stop at depth_limit and record the decision prefix."""
        if self.depth_limit is not None and self.pos >= self.depth_limit:
            self.frontier.append([[e[0], (e[1] if e[0] == "b" else e[2][e[1]])] for e in self.stack[:self.pos]])
            self.stats.frontier = getattr(self.stats, "frontier", 0) + 1
            raise Abort()

    def pick(self, seq, label=None):
        seq = list(seq)
        return seq[self.choose(len(seq), label)]

    def concretize(self, term, lo, hi):
        """Enumerate every feasible value of an Int term within [lo, hi]."""
        if self.mode == "concrete":
            raise AssertionError("concretize of a symbolic term in concrete mode")
        t = z3.simplify(term)
        if z3.is_int_value(t):
            return t.as_long()
        i = self.pos
        if i < len(self.stack):
            e = self.stack[i]
            assert e[0] == "e", f"replay desync: expected enum, stack has {e[0]}"
        else:
            self._frontier_check()
            vals = []
            self.solver.push()
            self.solver.add(term >= lo, term <= hi)
            while True:
                r = self._check("q_conc")
                if r == z3.unknown:
                    raise Inconclusive("unknown in concretize")
                if r != z3.sat:
                    break
                v = self.solver.model().eval(term, model_completion=True).as_long()
                vals.append(v)
                self.solver.add(term != v)
            self.solver.pop()
            r = self._check("q_conc", z3.Or(term < lo, term > hi))
            if r != z3.unsat:
                self.stats.out_of_bounds += 1
            if not vals:
                raise Abort()
            vals.sort()
            e = ["e", 0, vals]
            self.stack.append(e)
            self.stats.decisions += 1
        self.pos += 1
        v = e[2][e[1]]
        self.solver.add(term == v)
        self.choices.append(["e", v])
        return v

    # ----------------------------------------------------------- obligations
    def assume(self, cond):
        from .values import SymBool
        if isinstance(cond, SymBool):
            cond = cond.e
        if self.mode == "concrete":
            if not cond:
                raise Abort()
            return
        if cond is True:
            return
        if cond is False:
            raise Abort()
        self.solver.add(cond)
        r = self._check("q_feas")
        if r == z3.unknown:
            raise Inconclusive("unknown in assume")
        if r != z3.sat:
            raise Abort()

    def prove(self, cond, what="", detail=None):
        """Assertion. Returns True if discharged, else records a CounterExample."""
        from .values import SymBool
        if isinstance(cond, SymBool):
            cond = cond.e
        if self.mode == "concrete":
            if z3.is_expr(cond):
                # a closed formula over the model's numbers: let z3 evaluate it
                c2 = z3.simplify(cond)
                if z3.is_true(c2):
                    ok = True
                elif z3.is_false(c2):
                    ok = False
                else:
                    sol = z3.Solver()
                    sol.add(z3.Not(cond))
                    ok = sol.check() == z3.unsat
            else:
                ok = bool(cond)
            if not ok:
                self.cfailed.append((what, detail))
            return ok
        if isinstance(cond, bool):
            cond = z3.BoolVal(cond)
        cond = z3.simplify(cond)
        if z3.is_true(cond):
            self.stats.proved += 1
            return True
        if z3.is_eq(cond) and cond.arg(0).sort() == z3.RealSort():
            # polynomial identity: sum-of-monomials normal form of lhs - rhs (z3 rewriter)
            d = z3.simplify(cond.arg(0) - cond.arg(1), som=True, hoist_mul=False)
            if z3.is_rational_value(d) and d.numerator_as_long() == 0:
                self.stats.proved += 1
                self.stats.normal_form = getattr(self.stats, "normal_form", 0) + 1
                return True
        r = self._check("q_assert", z3.Not(cond))
        if r == z3.unsat:
            self.stats.proved += 1
            return True
        if r == z3.unknown:
            raise Inconclusive(f"unknown on assertion {what}: {self.solver.reason_unknown()}")
        # the model may rest on the uninterpreted abstraction of products / inverses /
        # square roots: refine with their defining axioms for the terms at hand
        ax = self._nonlinear_axioms(cond)
        if ax:
            self.solver.push()
            self.solver.add(*ax)
            self.solver.set("timeout", self.refine_timeout_ms)
            r2 = self._check("q_assert", z3.Not(cond))
            self.solver.set("timeout", self.query_timeout_ms)
            if r2 == z3.sat:
                cex = self.extract_cex(what, detail)
                self.solver.pop()
                self.cexs.append(cex)
                return False
            reason = self.solver.reason_unknown() if r2 == z3.unknown else ""
            self.solver.pop()
            if r2 == z3.unsat:
                self.stats.proved += 1
                self.stats.refined = getattr(self.stats, "refined", 0) + 1
                return True
            # the refined query is too hard for the solver: keep the model of the abstract
            # query as a *candidate*; it is reported only if it reproduces concretely on the
            # real code (otherwise the run is inconclusive)
            d = dict(detail or {})
            d["candidate_from_abstract_model"] = True
            r3 = self._check("q_assert", z3.Not(cond))
            if r3 == z3.sat:
                self.cexs.append(self.extract_cex(what, d))
                return False
            raise Inconclusive(f"unknown on refined (non-linear) assertion {what}: {reason}")
        self.cexs.append(self.extract_cex(what, detail))
        return False

    def _nonlinear_axioms(self, cond):
        from .values import SMUL, INV, SQRTF
        names = {SMUL.name(): "mul", INV.name(): "inv", SQRTF.name(): "sqrt"}
        seen, out, todo = set(), [], list(self.solver.assertions()) + [cond]
        while todo:
            x = todo.pop()
            if x.get_id() in seen:
                continue
            seen.add(x.get_id())
            if z3.is_app(x):
                k = names.get(x.decl().name()) if x.decl().kind() == z3.Z3_OP_UNINTERPRETED else None
                if k == "mul":
                    out.append(x == x.arg(0) * x.arg(1))
                elif k == "inv":
                    out.append(z3.Implies(x.arg(0) != 0, x * x.arg(0) == 1))
                elif k == "sqrt":
                    out.append(z3.And(x >= 0, z3.Implies(x.arg(0) >= 0, x * x == x.arg(0))))
                todo.extend(x.children())
        return out

    def emit(self, key, text):
        if self.mode == "sym":
            self.transcript.append((key, text))

    def fail(self, what, detail=None):
        """An unconditional failure on this path (e.g. unexpected exception)."""
        if self.mode == "concrete":
            self.cfailed.append((what, detail))
            return
        r = self._check("q_assert")
        if r != z3.sat:
            raise Inconclusive("path condition not sat at fail()")
        self.cexs.append(self.extract_cex(what, detail))

    def witness(self):
        """Reachability twin: a model for the current path (assert False)."""
        if self.mode == "concrete":
            return True
        return self._check("q_assert") == z3.sat

    def extract_cex(self, what, detail=None):
        m = self.solver.model()
        values = {}
        for name, c in self.symbols.items():
            values[name] = z3val_to_py(m.eval(c, model_completion=True))
        funcs = {}
        for name, f in self.funcs.items():
            try:
                fi = m[f]
                if isinstance(fi, z3.FuncInterp):
                    fi.num_entries()
            except z3.Z3Exception:
                fi = None   # function does not occur in this path's model
            tab = []
            els = 0
            if fi is not None and isinstance(fi, z3.FuncInterp):
                for k in range(fi.num_entries()):
                    en = fi.entry(k)
                    args = tuple(z3val_to_py(en.arg_value(j)) for j in range(en.num_args()))
                    tab.append([args, z3val_to_py(en.value())])
                ev = fi.else_value()
                els = z3val_to_py(ev) if ev is not None and z3.is_app(ev) and ev.num_args() == 0 else 0
                if isinstance(els, str):
                    els = 0
            elif fi is not None:
                els = z3val_to_py(fi)
            funcs[name] = {"table": tab, "else": els}
        return CounterExample(what, values, funcs, list(self.choices), detail)

    # -------------------------------------------------------------- factories
    def name(self, p):
        return f"{p}!{next(self.fresh)}"

    def int(self, name, **kw):
        from .values import SymInt
        if self.mode == "concrete":
            return int(self.cvalues.get(name, 0))
        c = z3.Int(name)
        self.symbols[name] = c
        return SymInt(c, **kw)

    def real(self, name):
        from .values import SymReal
        if self.mode == "concrete":
            v = self.cvalues.get(name, 0)
            return self.real_as(v) if not isinstance(v, str) else self.real_as(0)
        c = z3.Real(name)
        self.symbols[name] = c
        return SymReal(c)

    def bool(self, name):
        from .values import SymBool
        if self.mode == "concrete":
            return bool(self.cvalues.get(name, False))
        c = z3.Bool(name)
        self.symbols[name] = c
        return SymBool(c)

    def func(self, name, nargs, sort="int"):
        """Uninterpreted function = any deterministic function of its arguments."""
        from .values import SymInt, SymReal, lift_int, lift_real
        if self.mode == "concrete":
            spec = self.cfuncs.get(name, {"table": [], "else": 0})
            table = {tuple(Fraction(a) for a in args): val for args, val in spec["table"]}
            els = spec["else"]
            conv = int if sort == "int" else self.real_as

            def cf(*args):
                key = tuple(Fraction(a) for a in args)
                return conv(table.get(key, els))
            return cf
        zs = z3.IntSort() if sort == "int" else z3.RealSort()
        f = self.funcs.get(name)
        if f is None:
            f = z3.Function(name, *([zs] * (nargs + 1)))
            self.funcs[name] = f
        lift = lift_int if sort == "int" else lift_real
        wrap = SymInt if sort == "int" else SymReal

        def sf(*args):
            return wrap(f(*[lift(a) for a in args]))
        return sf


_EX = None


def cur():
    return _EX


def set_cur(ex):
    global _EX
    _EX = ex

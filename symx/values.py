"""Symbolic value classes whose Python operators build z3 terms.

SymInt  - z3 Int, Python int semantics (floor division, modulo sign of divisor,
          ZeroDivisionError on the ==0 side of a fork).
SymReal - z3 Real standing for float ("floats as reals", stated per check).
          Products of two non-constant values and sqrt are uninterpreted
          (smul commutative, sqrtf >= 0): a sound over-approximation for proving.
SymBool - z3 Bool; bool() forks.
"""
from fractions import Fraction

import numpy as np
import z3

from . import core
from .core import Inconclusive

_I = z3.IntSort()
_R = z3.RealSort()
SMUL = z3.Function("smul", _R, _R, _R)
SQRTF = z3.Function("sqrtf", _R, _R)
IMUL = z3.Function("imul", _I, _I, _I)
BAND = z3.Function("band", _I, _I, _I)
BOR = z3.Function("bor", _I, _I, _I)
BXOR = z3.Function("bxor", _I, _I, _I)
IPOW = z3.Function("ipow", _I, _I, _I)
SHL = z3.Function("shl", _I, _I, _I)
SHR = z3.Function("shr", _I, _I, _I)
IROUND = z3.Function("iround", _I, _I, _I)
RROUND1 = z3.Function("rround1", _R, _I)
RROUND2 = z3.Function("rround2", _R, _R, _R)
RFLOOR = z3.Function("rfloor", _R, _I)
RCEIL = z3.Function("rceil", _R, _I)
RTRUNC = z3.Function("rtrunc", _R, _I)


def lift_int(x):
    if isinstance(x, SymInt):
        return x.e
    if isinstance(x, (bool, np.bool_)):
        return z3.IntVal(int(x))
    if isinstance(x, (int, np.integer)):
        return z3.IntVal(int(x))
    return None


def lift_real(x):
    if isinstance(x, SymReal):
        return x.e
    if isinstance(x, SymInt):
        return z3.ToReal(x.e)
    if isinstance(x, (bool, np.bool_)):
        return None
    if isinstance(x, (int, np.integer)):
        return z3.RealVal(int(x))
    if isinstance(x, (float, np.floating)):
        f = float(x)
        if f != f or f in (float("inf"), float("-inf")):
            return None
        fr = Fraction(f)
        return z3.RealVal(fr.numerator) / z3.RealVal(fr.denominator)
    if isinstance(x, Fraction):
        return z3.RealVal(x.numerator) / z3.RealVal(x.denominator)
    return None


def lift_bool(x):
    if isinstance(x, SymBool):
        return x.e
    if isinstance(x, (bool, np.bool_)):
        return z3.BoolVal(bool(x))
    return None


class SymBool:
    __slots__ = ("e",)

    def __init__(self, e):
        self.e = e

    def __bool__(self):
        return core.cur().branch(self.e)

    def __invert__(self):
        return SymBool(z3.Not(self.e))

    def _b(self, o, f):
        b = lift_bool(o)
        if b is None:
            return NotImplemented
        return SymBool(f(self.e, b))

    def __and__(self, o):
        return self._b(o, z3.And)

    __rand__ = __and__

    def __or__(self, o):
        return self._b(o, z3.Or)

    __ror__ = __or__

    def __xor__(self, o):
        return self._b(o, z3.Xor)

    __rxor__ = __xor__

    def __eq__(self, o):
        return self._b(o, lambda a, b: a == b)

    def __ne__(self, o):
        return self._b(o, lambda a, b: a != b)

    __hash__ = None

    def __repr__(self):
        return f"<{self.e}>"


def tobool(x):
    """z3 Bool term of a SymBool / python bool."""
    if isinstance(x, SymBool):
        return x.e
    return z3.BoolVal(bool(x))


def sym_and(*xs):
    return z3.And(*[tobool(x) for x in xs]) if xs else z3.BoolVal(True)


_PICKLE_TABLE = {}


def _restore_sym(k):
    return _PICKLE_TABLE[k]


class SymInt:
    """Symbolic Python int."""
    __slots__ = ("e", "hashmode", "lo", "hi")
    _registry = {}

    def __init__(self, e, hashmode="const", lo=-8, hi=8):
        self.e = e
        self.hashmode = hashmode
        self.lo = lo
        self.hi = hi

    # -- identity / printing
    def __hash__(self):
        if self.hashmode == "conc":
            return hash(core.cur().concretize(self.e, self.lo, self.hi))
        return 0

    def __repr__(self):
        # printable and re-evaluable: `_S['<term>']` resolves through the registry; the
        # text depends on the term only (stable across processes)
        key = self.e.sexpr()
        SymInt._registry[key] = self
        return f"_S[{key!r}]"

    def __reduce__(self):
        # pickling within one process: original and copy hold the same z3 symbol
        k = len(_PICKLE_TABLE)
        _PICKLE_TABLE[k] = self
        return (_restore_sym, (k,))

    def __index__(self):
        return core.cur().concretize(self.e, self.lo, self.hi)

    def __int__(self):
        return core.cur().concretize(self.e, self.lo, self.hi)

    def __bool__(self):
        return core.cur().branch(self.e != 0)

    def _mk(self, e, o=None):
        hm = self.hashmode
        lo, hi = self.lo, self.hi
        if isinstance(o, SymInt) and o.hashmode == "conc":
            hm = "conc"
            lo, hi = min(lo, o.lo), max(hi, o.hi)
        return SymInt(e, hm, lo, hi)

    def _bin(self, o, f, rev=False):
        if isinstance(o, (float, np.floating)) and o != o:
            return float("nan") if f in _RF else NotImplemented
        if isinstance(o, (float, np.floating, SymReal, Fraction)):
            return SymReal(z3.ToReal(self.e))._b(o, _RF[f], rev) if f in _RF else NotImplemented
        b = lift_int(o)
        if b is None:
            return NotImplemented
        return self._mk(f(b, self.e) if rev else f(self.e, b), o)

    def __add__(self, o):
        return self._bin(o, _add)

    def __radd__(self, o):
        return self._bin(o, _add, True)

    def __sub__(self, o):
        return self._bin(o, _sub)

    def __rsub__(self, o):
        return self._bin(o, _sub, True)

    def __mul__(self, o):
        return self._bin(o, _imul)

    def __rmul__(self, o):
        return self._bin(o, _imul, True)

    def __neg__(self):
        return self._mk(-self.e)

    def __pos__(self):
        return self

    def __abs__(self):
        return self._mk(z3.If(self.e >= 0, self.e, -self.e))

    def __invert__(self):
        return self._mk(-self.e - 1)

    def __round__(self, n=None):
        if n is None or (isinstance(n, int) and not isinstance(n, bool) and n >= 0):
            return self
        b = lift_int(n)
        if b is None:
            return NotImplemented
        return self._mk(IROUND(self.e, b))

    def __trunc__(self):
        return self

    def __floor__(self):
        return self

    def __ceil__(self):
        return self

    @staticmethod
    def _fd(a, b):
        # z3 `div` is Euclidean (remainder >= 0); Python floors.
        return z3.If(b > 0, a / b, (-a) / (-b))

    @staticmethod
    def _md(a, b):
        return a - b * SymInt._fd(a, b)

    def _divop(self, o, f, rev):
        if isinstance(o, (float, np.floating)) and o != o:
            return float("nan")
        b = lift_int(o)
        if b is None:
            return NotImplemented
        a = self.e
        if rev:
            a, b = b, a
        if core.cur().branch(b == 0):
            raise ZeroDivisionError("integer division or modulo by zero")
        return self._mk(f(a, b), o)

    def __floordiv__(self, o):
        return self._divop(o, SymInt._fd, False)

    def __rfloordiv__(self, o):
        return self._divop(o, SymInt._fd, True)

    def __mod__(self, o):
        return self._divop(o, SymInt._md, False)

    def __rmod__(self, o):
        return self._divop(o, SymInt._md, True)

    def __divmod__(self, o):
        if lift_int(o) is None:
            return NotImplemented
        return (self // o, self % o)

    def __truediv__(self, o):
        return SymReal(z3.ToReal(self.e)) / o

    def __rtruediv__(self, o):
        return o / SymReal(z3.ToReal(self.e))

    def __pow__(self, o, mod=None):
        if isinstance(o, int) and not isinstance(o, bool):
            if o == 0:
                return 1
            if o == 1:
                return self
            if o == 2:
                return self._mk(_imul(self.e, self.e))
        b = lift_int(o)
        if b is None:
            return NotImplemented
        return self._pow(self.e, b, o)

    def __rpow__(self, o):
        b = lift_int(o)
        if b is None:
            return NotImplemented
        return self._pow(b, self.e, o)

    def _pow(self, base, exp, o):
        # Python: 0 ** negative raises ZeroDivisionError
        if core.cur().branch(z3.And(base == 0, exp < 0)):
            raise ZeroDivisionError("0.0 cannot be raised to a negative power")
        return self._mk(IPOW(base, exp), o)

    def __and__(self, o):
        return self._bin(o, _band)

    def __rand__(self, o):
        return self._bin(o, _band, True)

    def __or__(self, o):
        return self._bin(o, _bor)

    def __ror__(self, o):
        return self._bin(o, _bor, True)

    def __xor__(self, o):
        return self._bin(o, _bxor)

    def __rxor__(self, o):
        return self._bin(o, _bxor, True)

    def __lshift__(self, o):
        return self._bin(o, _shl)

    def __rlshift__(self, o):
        return self._bin(o, _shl, True)

    def __rshift__(self, o):
        return self._bin(o, _shr)

    def __rrshift__(self, o):
        return self._bin(o, _shr, True)

    def __matmul__(self, o):
        return NotImplemented

    def _cmp(self, o, f):
        if isinstance(o, (float, np.floating)) and o != o:
            return f is _ne
        if isinstance(o, (float, np.floating, SymReal, Fraction)):
            return SymReal(z3.ToReal(self.e))._c(o, f)
        b = lift_int(o)
        if b is None:
            return NotImplemented
        return SymBool(f(self.e, b))

    def __eq__(self, o):
        return self._cmp(o, _eq)

    def __ne__(self, o):
        return self._cmp(o, _ne)

    def __lt__(self, o):
        return self._cmp(o, _lt)

    def __le__(self, o):
        return self._cmp(o, _le)

    def __gt__(self, o):
        return self._cmp(o, _gt)

    def __ge__(self, o):
        return self._cmp(o, _ge)


def _add(a, b): return a + b
def _sub(a, b): return a - b
def _eq(a, b): return a == b
def _ne(a, b): return a != b
def _lt(a, b): return a < b
def _le(a, b): return a <= b
def _gt(a, b): return a > b
def _ge(a, b): return a >= b


def _sorted2(a, b):
    return (a, b) if a.get_id() <= b.get_id() else (b, a)


def _imul(a, b):
    if z3.is_int_value(a) or z3.is_int_value(b):
        return a * b
    a, b = _sorted2(a, b)
    return IMUL(a, b)


def _band(a, b):
    a, b = _sorted2(a, b)
    return BAND(a, b)


def _bor(a, b):
    a, b = _sorted2(a, b)
    return BOR(a, b)


def _shl(a, b):
    return SHL(a, b)


def _shr(a, b):
    return SHR(a, b)


def _bxor(a, b):
    a, b = _sorted2(a, b)
    return BXOR(a, b)


def _rmul(a, b):
    if z3.is_rational_value(a) or z3.is_rational_value(b):
        return a * b
    a, b = _sorted2(a, b)
    return SMUL(a, b)


_RF = {_add: _add, _sub: _sub, _imul: _rmul}


class SymReal:
    """Symbolic real standing for a Python/numpy float."""
    __slots__ = ("e",)
    exact_mul = False

    def __init__(self, e):
        self.e = e

    def __repr__(self):
        return f"<{self.e}>"

    def __format__(self, spec):
        return repr(self)

    def __hash__(self):
        return 0

    def _b(self, o, f, rev=False):
        if isinstance(o, (float, np.floating)) and o != o:
            return float("nan")
        b = lift_real(o)
        if b is None:
            return NotImplemented
        return SymReal(z3.simplify(f(b, self.e) if rev else f(self.e, b)))

    def __add__(self, o):
        return self._b(o, _add)

    def __radd__(self, o):
        return self._b(o, _add, True)

    def __sub__(self, o):
        return self._b(o, _sub)

    def __rsub__(self, o):
        return self._b(o, _sub, True)

    def __mul__(self, o):
        if SymReal.exact_mul:
            return self._b(o, lambda a, b: a * b)
        return self._b(o, lambda a, b: _rmul(z3.simplify(a), z3.simplify(b)))

    __rmul__ = __mul__

    def _div(self, o, rev):
        if isinstance(o, (float, np.floating)) and o != o:
            return float("nan")
        b = lift_real(o)
        if b is None:
            return NotImplemented
        a = self.e
        if rev:
            a, b = b, a
        b = z3.simplify(b)
        if z3.is_rational_value(b):
            if b.numerator_as_long() == 0:
                raise ZeroDivisionError("float division by zero")
            return SymReal(z3.simplify(a / b))
        if core.cur().branch(b == 0, refine=True):
            raise ZeroDivisionError("float division by zero")
        if SymReal.exact_mul:
            return SymReal(a * INV(b))          # exact product, opaque inverse (inv(b)*b == 1 added on refinement)
        return SymReal(_rmul(z3.simplify(a), INV(b)))

    def __truediv__(self, o):
        return self._div(o, False)

    def __rtruediv__(self, o):
        return self._div(o, True)

    def __neg__(self):
        return SymReal(-self.e)

    def __pos__(self):
        return self

    def __abs__(self):
        return SymReal(z3.If(self.e >= 0, self.e, -self.e))

    def __pow__(self, o):
        if isinstance(o, (int, float)) and o == 2:
            return self * self
        if isinstance(o, (int, float)) and o == 1:
            return self
        b = lift_real(o)
        if b is None:
            return NotImplemented
        return self._pow(self.e, b)

    def __rpow__(self, o):
        b = lift_real(o)
        if b is None:
            return NotImplemented
        return self._pow(b, self.e)

    @staticmethod
    def _pow(base, exp):
        if core.cur().branch(z3.And(base == 0, exp < 0)):
            raise ZeroDivisionError("0.0 cannot be raised to a negative power")
        return SymReal(RPOW(base, exp))

    def _c(self, o, f):
        if isinstance(o, (float, np.floating)) and o != o:
            return f is _ne
        b = lift_real(o)
        if b is None:
            return NotImplemented
        return SymBool(z3.simplify(f(self.e, b)))

    def __lt__(self, o):
        return self._c(o, _lt)

    def __le__(self, o):
        return self._c(o, _le)

    def __gt__(self, o):
        return self._c(o, _gt)

    def __ge__(self, o):
        return self._c(o, _ge)

    def __eq__(self, o):
        return self._c(o, _eq)

    def __ne__(self, o):
        return self._c(o, _ne)

    def __bool__(self):
        return core.cur().branch(self.e != 0)

    def __round__(self, n=None):
        if n is None:
            return SymInt(RROUND1(self.e))
        b = lift_real(n)
        if b is None:
            return NotImplemented
        return SymReal(RROUND2(self.e, b))

    def __floor__(self):
        return SymInt(z3.ToInt(self.e))

    def __ceil__(self):
        return SymInt(-z3.ToInt(-self.e))

    def __trunc__(self):
        return SymInt(z3.If(self.e >= 0, z3.ToInt(self.e), -z3.ToInt(-self.e)))

    def sqrt(self):
        p = SQRTF(self.e)
        core.cur().add(p >= 0)
        return SymReal(p)

    def copy(self):
        return self

    def __float__(self):
        raise Inconclusive("float() of a symbolic real")


INV = z3.Function("inv", _R, _R)
RPOW = z3.Function("rpow", _R, _R, _R)


class CReal(Fraction):
    """Concrete exact rational used when replaying real-valued counterexamples
    through numpy object arrays: floats met on the way are absorbed exactly
    (Fraction(float) is exact), so the replay stays in exact arithmetic."""

    def sqrt(self):
        import math
        n, d = self.numerator, self.denominator
        rn, rd = math.isqrt(n) if n >= 0 else 0, math.isqrt(d)
        if n >= 0 and rn * rn == n and rd * rd == d:
            return CReal(rn, rd)
        return CReal(math.sqrt(float(self)))

    def copy(self):
        return self

    @staticmethod
    def _c(o):
        if isinstance(o, (float, np.floating)):
            return Fraction(float(o))
        if isinstance(o, np.integer):
            return int(o)
        return o

    @staticmethod
    def _w(r):
        return CReal(r) if isinstance(r, Fraction) and not isinstance(r, CReal) else r

    def __add__(self, o): return self._w(Fraction.__add__(self, self._c(o)))
    def __radd__(self, o): return self._w(Fraction.__radd__(self, self._c(o)))
    def __sub__(self, o): return self._w(Fraction.__sub__(self, self._c(o)))
    def __rsub__(self, o): return self._w(Fraction.__rsub__(self, self._c(o)))
    def __mul__(self, o): return self._w(Fraction.__mul__(self, self._c(o)))
    def __rmul__(self, o): return self._w(Fraction.__rmul__(self, self._c(o)))
    def __truediv__(self, o): return self._w(Fraction.__truediv__(self, self._c(o)))
    def __rtruediv__(self, o): return self._w(Fraction.__rtruediv__(self, self._c(o)))
    def __neg__(self): return CReal(Fraction.__neg__(self))
    def __pos__(self): return self
    def __abs__(self): return CReal(Fraction.__abs__(self))

    def __pow__(self, o):
        if isinstance(o, int):
            return self._w(Fraction.__pow__(self, o))
        return CReal(float(self) ** float(o))

    def __lt__(self, o): return Fraction.__lt__(self, self._c(o))
    def __le__(self, o): return Fraction.__le__(self, self._c(o))
    def __gt__(self, o): return Fraction.__gt__(self, self._c(o))
    def __ge__(self, o): return Fraction.__ge__(self, self._c(o))
    def __eq__(self, o): return Fraction.__eq__(self, self._c(o))
    __hash__ = Fraction.__hash__


def is_sym(x):
    return isinstance(x, (SymInt, SymReal, SymBool))


def has_sym(x):
    if is_sym(x) or isinstance(x, Fraction):
        return True
    if isinstance(x, np.ndarray):
        return x.dtype == object and any(has_sym(e) for e in x.flat)
    if isinstance(x, (list, tuple)):
        return any(has_sym(e) for e in x)
    return False


def term(x):
    """z3 term of a symbolic or concrete number (Int or Real sort)."""
    if isinstance(x, (SymInt, SymReal, SymBool)):
        return x.e
    t = lift_int(x)
    if t is not None:
        return t
    t = lift_real(x)
    if t is not None:
        return t
    raise Inconclusive(f"cannot lift {x!r} ({type(x).__name__}) to a term")


def eq(a, b):
    """Equality as SymBool / python bool, across int/real sorts."""
    if isinstance(a, (SymInt, SymReal, SymBool)) or isinstance(b, (SymInt, SymReal, SymBool)):
        r = (a == b)
        if r is NotImplemented:
            return False
        return r
    try:
        r = a == b
        if isinstance(r, np.ndarray):
            return bool(r.all())
        return bool(r)
    except Exception:
        return False


# symbolic numbers are numbers: code under test that asks isinstance(x, numbers.Number)
# (e.g. to tell plain values from containers) must see them as such
import numbers as _numbers
_numbers.Integral.register(SymInt)
_numbers.Real.register(SymReal)

"""Iteration order as a schedule: NDSet is a set whose iteration order is an
engine decision (every permutation is explored), a superset of the orders any
PYTHONHASHSEED can produce.  Installed at load time by an AST pass over the
pure-Python xdeps modules in the harness process only; /repo is not modified.
"""
import ast
import itertools
import math

from . import core

MAXN = 5


class NDSet(set):
    def __iter__(self):
        items = sorted(set.__iter__(self), key=lambda x: (type(x).__name__, str(x)))
        n = len(items)
        if n <= 1:
            return iter(items)
        if n > MAXN:
            raise core.Inconclusive(f"NDSet of {n} elements: iteration orders not enumerated beyond {MAXN}")
        # for one interpreter (one hash seed) the iteration order of a set is a function
        # of its contents: one decision per distinct content per path
        ex = core.cur()
        memo = ex.path_memo
        key = ("ndset", tuple(str(x) for x in items))
        perm = memo.get(key)
        if perm is None:
            k = ex.choose(math.factorial(n))
            perm = next(itertools.islice(itertools.permutations(items), k, None))
            memo[key] = perm
        return iter(perm)

    def copy(self):
        return type(self)(set.__iter__(self))

    def __or__(self, o):
        return NDSet(set.__or__(self, o))

    def __and__(self, o):
        return NDSet(set.__and__(self, o))

    def __sub__(self, o):
        return NDSet(set.__sub__(self, o))


class NDSetFew(NDSet):
    """Three representative iteration orders per distinct content (sorted, reversed,
    rotated by one) instead of all n! - used for the sets whose order only influences
    dict insertion order; stated as a bound, not as 'all seeds'."""

    def __iter__(self):
        items = sorted(set.__iter__(self), key=lambda x: (type(x).__name__, str(x)))
        n = len(items)
        if n <= 1:
            return iter(items)
        ex = core.cur()
        memo = ex.path_memo
        key = ("ndsetfew", tuple(str(x) for x in items))
        perm = memo.get(key)
        if perm is None:
            cands = [tuple(items), tuple(reversed(items))]
            rot = tuple(items[1:] + items[:1])
            if rot not in cands:
                cands.append(rot)
            perm = cands[ex.choose(len(cands))]
            memo[key] = perm
        return iter(perm)


class _T(ast.NodeTransformer):
    def __init__(self, only_functions=None, full_functions=None):
        self.only = only_functions
        self.full = full_functions
        self.stack = []
        self.count = 0

    def visit_FunctionDef(self, node):
        self.stack.append(node.name)
        self.generic_visit(node)
        self.stack.pop()
        return node

    def _active(self):
        return self.only is None or any(f in self.only for f in self.stack)

    def _name(self):
        if self.full is not None and not any(f in self.full for f in self.stack):
            return "_symx_NDSetFew"
        return "_symx_NDSet"

    def visit_Call(self, node):
        self.generic_visit(node)
        if self._active() and isinstance(node.func, ast.Name) and node.func.id == "set":
            self.count += 1
            return ast.copy_location(ast.Call(ast.Name(self._name(), ast.Load()), node.args, node.keywords), node)
        return node

    def visit_Set(self, node):
        self.generic_visit(node)
        if self._active():
            self.count += 1
            return ast.copy_location(
                ast.Call(ast.Name(self._name(), ast.Load()), [ast.List(node.elts, ast.Load())], []), node)
        return node

    def visit_SetComp(self, node):
        self.generic_visit(node)
        if self._active():
            self.count += 1
            return ast.copy_location(
                ast.Call(ast.Name(self._name(), ast.Load()), [ast.ListComp(node.elt, node.generators)], []), node)
        return node


def _compile(src, path, only, full=None):
    tree = ast.parse(src, path)
    t = _T(only, full)
    tree = t.visit(tree)
    imp = ast.parse("from symx.ndset import NDSet as _symx_NDSet, NDSetFew as _symx_NDSetFew").body[0]
    # keep `from __future__` / docstring first
    pos = 0
    while pos < len(tree.body) and (
            (isinstance(tree.body[pos], ast.Expr) and isinstance(getattr(tree.body[pos], "value", None), ast.Constant))
            or (isinstance(tree.body[pos], ast.ImportFrom) and tree.body[pos].module == "__future__")):
        pos += 1
    tree.body.insert(pos, imp)
    ast.fix_missing_locations(tree)
    return compile(tree, path, "exec")


def start_set_only(src, path):
    """Only the start set of Manager.find_taskids and the name set of
    Table._get_regexp_indices become NDSets."""
    if path.endswith("tasks.py"):
        return _compile(src, path, {"find_taskids"})
    if path.endswith("table.py"):
        return _compile(src, path, {"_get_regexp_indices"})
    return compile(src, path, "exec")


def all_sets(src, path):
    """Every set() call / display / comprehension of the module: all orders for the start
    set of find_taskids / the name set of _get_regexp_indices, three representative orders
    for every other set."""
    return _compile(src, path, None, {"find_taskids", "_get_regexp_indices"})

"""Load xdeps from /repo's *current working tree*.

`xdeps.refs` is a Cython pure-Python-mode module.  The `.so` lying in /repo may
be stale with respect to refs.py, so it is never imported.  Two builds:

  pure      refs.py loaded from source as `xdeps.refs` (is_cythonized() False)
  compiled  refs.py cythonized + compiled afresh into a cache directory keyed by
            the sha256 of refs.py (so an edited refs.py is always rebuilt),
            loaded as `xdeps.refs`; every other module comes from /repo as is.
"""
import hashlib
import importlib.machinery
import importlib.util
import os
import shutil
import subprocess
import sys
import types
import fcntl

REPO = os.environ.get("XDEPS_REPO", "/repo")
CACHE = os.environ.get("XDEPS_VERIF_CACHE", "/verif/.cache")


def source_hashes(files=("refs.py", "tasks.py", "sorting.py", "table.py", "madxutils.py",
                         "optimize/optimize.py", "optimize/jacobian.py", "optimize/matrixutils.py")):
    out = {}
    for f in files:
        p = os.path.join(REPO, "xdeps", f)
        with open(p, "rb") as fh:
            out[f] = hashlib.sha256(fh.read()).hexdigest()[:16]
    return out


def build_compiled():
    """Cythonize the current refs.py; returns the path of the fresh .so."""
    src = os.path.join(REPO, "xdeps", "refs.py")
    with open(src, "rb") as fh:
        sha = hashlib.sha256(fh.read()).hexdigest()[:20]
    os.makedirs(CACHE, exist_ok=True)
    bdir = os.path.join(CACHE, f"build-{sha}")
    lock = open(os.path.join(CACHE, "build.lock"), "w")
    fcntl.flock(lock, fcntl.LOCK_EX)
    try:
        so = _find_so(bdir)
        if so:
            return so
        # drop older builds (disk is limited)
        for d in os.listdir(CACHE):
            if d.startswith("build-") and d != f"build-{sha}":
                shutil.rmtree(os.path.join(CACHE, d), ignore_errors=True)
        shutil.rmtree(bdir, ignore_errors=True)
        os.makedirs(os.path.join(bdir, "xdeps"))
        shutil.copy(src, os.path.join(bdir, "xdeps", "refs.py"))
        open(os.path.join(bdir, "xdeps", "__init__.py"), "w").close()
        with open(os.path.join(bdir, "setup.py"), "w") as fh:
            fh.write("from Cython.Build import cythonize\nfrom setuptools import setup\n"
                     "setup(name='xr', ext_modules=cythonize('xdeps/refs.py', quiet=True), script_args=['build_ext','--inplace','-q'])\n")
        r = subprocess.run([sys.executable, "setup.py"], cwd=bdir, capture_output=True, text=True)
        so = _find_so(bdir)
        if r.returncode != 0 or not so:
            raise RuntimeError("cythonize/build of refs.py failed:\n" + r.stdout[-2000:] + r.stderr[-4000:])
        shutil.rmtree(os.path.join(bdir, "build"), ignore_errors=True)
        try:
            os.remove(os.path.join(bdir, "xdeps", "refs.c"))
        except OSError:
            pass
        return so
    finally:
        fcntl.flock(lock, fcntl.LOCK_UN)
        lock.close()


def _find_so(bdir):
    d = os.path.join(bdir, "xdeps")
    if os.path.isdir(d):
        for f in os.listdir(d):
            if f.startswith("refs.") and f.endswith(".so"):
                return os.path.join(d, f)
    return None


def load_xdeps(build="pure", transform=None):
    """Import xdeps from REPO with xdeps.refs in the requested build.

    transform: optional callable(source_text, filename) -> code/AST source used
    for the *pure python* modules (load-time instrumentation, e.g. NDSet)."""
    for k in [k for k in sys.modules if k == "xdeps" or k.startswith("xdeps.")]:
        del sys.modules[k]
    pkgdir = os.path.join(REPO, "xdeps")
    pkg = types.ModuleType("xdeps")
    pkg.__path__ = [pkgdir]
    pkg.__file__ = os.path.join(pkgdir, "__init__.py")
    spec = importlib.machinery.ModuleSpec("xdeps", None, is_package=True)
    spec.submodule_search_locations = [pkgdir]
    pkg.__spec__ = spec
    pkg.__package__ = "xdeps"
    sys.modules["xdeps"] = pkg
    if build == "compiled":
        so = build_compiled()
        loader = importlib.machinery.ExtensionFileLoader("xdeps.refs", so)
        sp = importlib.util.spec_from_loader("xdeps.refs", loader)
        mod = importlib.util.module_from_spec(sp)
        sys.modules["xdeps.refs"] = mod
        loader.exec_module(mod)
        assert mod.is_cythonized()
    else:
        mod = _load_source("xdeps.refs", os.path.join(pkgdir, "refs.py"), transform)
        assert not mod.is_cythonized()
    pkg.refs = mod
    if transform is not None:
        # instrumented loading for the other pure modules that matter
        for name in ("sorting", "tasks", "table"):
            m = _load_source(f"xdeps.{name}", os.path.join(pkgdir, f"{name}.py"), transform)
            setattr(pkg, name, m)
    with open(pkg.__file__) as fh:
        src = fh.read()
    exec(compile(src, pkg.__file__, "exec"), pkg.__dict__)
    return pkg


def _load_source(modname, path, transform=None):
    with open(path) as fh:
        src = fh.read()
    mod = types.ModuleType(modname)
    mod.__file__ = path
    mod.__package__ = modname.rpartition(".")[0]
    mod.__spec__ = importlib.machinery.ModuleSpec(modname, None, origin=path)
    sys.modules[modname] = mod
    code = transform(src, path) if transform else compile(src, path, "exec")
    exec(code, mod.__dict__)
    return mod

"""Case-parallel driver: runs a check module, replays counterexamples on the
real code, applies the known-findings file, writes evidence, sets exit code.

Exit codes: 0 = every case explored to exhaustion, all assertions discharged
(or only open known findings hit); 1 = reproduced violation not covered by an
open known finding (prints VIOLATION line); 2 = inconclusive / engine error.
"""
import hashlib
import importlib
import json
import multiprocessing as mp
import os
import sys
import time
import traceback

from . import core
from .core import Explorer, Inconclusive, CounterExample, Stats

VERIF = os.path.dirname(os.path.dirname(os.path.abspath(__file__)))
_loaded = {}


def get_xdeps(build="pure", transform_name=None):
    """Per-process cache of the loaded xdeps package for a build."""
    from . import load
    key = (build, transform_name)
    if _loaded.get("key") != key:
        transform = None
        if transform_name:
            from . import ndset
            transform = getattr(ndset, transform_name)
        _loaded["pkg"] = load.load_xdeps(build, transform)
        _loaded["key"] = key
    return _loaded["pkg"]


class _Profiler:
    def __init__(self):
        self.entered = set()

    def __call__(self, frame, event, arg):
        if event == "call":
            co = frame.f_code
            fn = co.co_filename
            if "/xdeps/" in fn:
                self.entered.add(fn.rsplit("/xdeps/", 1)[1] + ":" + getattr(co, "co_qualname", co.co_name))


def _run_case(args):
    modname, case, idx, profile = args
    t0 = time.time()
    out = {"case": case, "idx": idx, "stats": Stats().as_dict(), "cexs": [], "samples": [],
           "notes": {}, "error": None, "entered": []}
    try:
        mod = importlib.import_module(modname)
        if hasattr(mod, "setup_case"):
            mod.setup_case(case)
        ex = Explorer(max_paths=getattr(mod, "MAX_PATHS", 5_000_000),
                      query_timeout_ms=getattr(mod, "QUERY_TIMEOUT_MS", 60_000))
        core.set_cur(ex)
        prof = None
        if profile:
            prof = _Profiler()
            sys.setprofile(prof)
        try:
            ex.explore(lambda e: mod.run_case(e, case), prefix=case.get("_prefix"), depth_limit=case.get("_pilot"))
        finally:
            if prof:
                sys.setprofile(None)
                out["entered"] = sorted(prof.entered)
        out["stats"] = ex.stats.as_dict()
        out["samples"] = ex.samples[:3]
        out["notes"] = ex.notes
        out["transcript"] = ex.transcript
        out["stopped_early"] = ex.stopped_early
        # replay each counterexample concretely on the real code
        seen = set()
        for cex in ex.cexs:
            cj = cex.to_json()
            key = json.dumps([cj["what"], cj["choices"], cj["values"]], sort_keys=True, default=str)
            if key in seen:
                continue
            seen.add(key)
            rep = replay(mod, case, cex)
            cj["reproduced"] = rep["reproduced"]
            cj["replay_failed"] = rep["failed"]
            cj["case"] = case
            if rep["reproduced"]:
                out["stats"]["replayed"] += 1
            else:
                out["stats"]["spurious"] += 1
            out["cexs"].append(cj)
            if len(out["cexs"]) >= 20:
                break
    except Inconclusive as e:
        out["error"] = f"inconclusive: {e}"
    except BaseException as e:  # engine error
        out["error"] = f"engine error: {type(e).__name__}: {e}\n" + traceback.format_exc()[-3000:]
    out["wall_s"] = time.time() - t0
    return out


def replay(mod, case, cex):
    """Run the harness in concrete mode on the counterexample's values."""
    from .values import CReal
    modes = getattr(mod, "REPLAY_REALS", ["fraction"])
    failed_all = []
    for m in modes:
        ex = Explorer()
        core.set_cur(ex)
        real_as = CReal if m == "fraction" else float
        try:
            failed = ex.run_concrete(lambda e: mod.run_case(e, case), cex, real_as=real_as)
        except Inconclusive as e:
            failed = []
        except Exception as e:
            # harnesses catch and classify exceptions of the code under test themselves;
            # an exception escaping the harness during replay is an engine problem, not a finding
            failed = []
        if failed:
            failed_all.append({"reals": m, "failed": [str(f[0]) for f in failed][:5]})
    return {"reproduced": bool(failed_all), "failed": failed_all}


def split_case(mod, case, depth):
    """Work splitting: a pilot run explores the case down to `depth` decisions and
    returns [pilot case (complete short paths only)] + one case per frontier prefix."""
    if hasattr(mod, "setup_case"):
        mod.setup_case(case)
    ex = Explorer(max_paths=getattr(mod, "MAX_PATHS", 5_000_000))
    core.set_cur(ex)
    ex.explore(lambda e: mod.run_case(e, case), depth_limit=depth)
    out = [dict(case, _pilot=depth)]
    seen = set()
    for pf in ex.frontier:
        key = json.dumps(pf)
        if key not in seen:
            seen.add(key)
            out.append(dict(case, _prefix=pf))
    return out


def load_known(prop):
    p = os.path.join(VERIF, "known_findings.json")
    if not os.path.exists(p):
        return []
    with open(p) as fh:
        data = json.load(fh)
    return [e for e in data.get("findings", []) if e["property"] == prop]


def main(modname, prop, tier, seed=0, replay_path=None, procs=None, only_case=None):
    t0 = time.time()
    mod = importlib.import_module(modname)
    if replay_path:
        return do_replay(mod, prop, replay_path)
    cases = mod.cases(tier)
    if only_case is not None:
        cases = [cases[only_case]]
    if seed:
        import random
        random.Random(seed).shuffle(cases)
    # sizing aid (not used by any registered command): run an evenly spaced sample of the cases
    lim = int(os.environ.get("VERIF_CASE_SAMPLE", "0"))
    if lim and len(cases) > lim:
        print(f"SAMPLED: {lim} of {len(cases)} cases (sizing run, not a verdict on the tier)")
        cases = cases[::len(cases) // lim][:lim]
    procs = procs or min(int(os.environ.get("VERIF_PROCS", "16")), max(1, len(cases)))
    nprof = getattr(mod, "PROFILE_CASES", 4)
    jobs = [(modname, c, i, i < nprof) for i, c in enumerate(cases)]
    results = []
    if procs == 1 or len(cases) == 1:
        for j in jobs:
            results.append(_run_case(j))
    else:
        ctx = mp.get_context("fork")
        with ctx.Pool(procs, maxtasksperchild=getattr(mod, "TASKS_PER_CHILD", 50)) as pool:
            for r in pool.imap_unordered(_run_case, jobs, chunksize=1):
                results.append(r)
    return finish(mod, prop, tier, seed, results, time.time() - t0)


def finish(mod, prop, tier, seed, results, wall, extra_cov=None, extra_errors=None):
    stats = Stats.merge([r["stats"] for r in results])
    errors = [r["error"] for r in results if r["error"]] + list(extra_errors or [])
    known = load_known(prop)
    sigs = getattr(mod, "SIGNATURES", {})
    violations, known_hits, spurious = [], {}, []
    for r in results:
        for cj in r["cexs"]:
            if not cj["reproduced"]:
                spurious.append(cj)
                continue
            hit = None
            for k in known:
                if k["status"] != "open":
                    continue
                f = sigs.get(k["signature"])
                if f and f(cj, r["case"]):
                    hit = k
                    break
            if hit:
                known_hits.setdefault(hit["id"], []).append(cj)
            else:
                violations.append(cj)
    # reachability classes (vacuity guard)
    notes = {}
    for r in results:
        for k, v in r["notes"].items():
            notes[k] = notes.get(k, 0) + v
    missing = [c for c in getattr(mod, "REQUIRED_CLASSES", []) if notes.get(c, 0) == 0]
    if missing:
        errors.append(f"vacuity: outcome classes never reached: {missing}")
    entered = set()
    for r in results:
        entered.update(r.get("entered", []))
    named = list(getattr(mod, "FUNCTIONS", []))
    not_entered = [f for f in named if entered and f not in entered and not f.startswith("~")]
    if spurious and not getattr(mod, "ALLOW_SPURIOUS", False):
        errors.append(f"{len(spurious)} counterexample(s) did not reproduce on the real code "
                      f"(encoding or abstraction at fault): e.g. {spurious[0]['what']}")
    # write replays
    os.makedirs(os.path.join(VERIF, "replays"), exist_ok=True)
    for _f in os.listdir(os.path.join(VERIF, "replays")):
        if _f.startswith(prop + "-"):
            os.remove(os.path.join(VERIF, "replays", _f))
    lines = []
    seen_what = set()
    for cj in violations:
        h = hashlib.sha256(json.dumps(cj, sort_keys=True, default=str).encode()).hexdigest()[:12]
        path = os.path.join(VERIF, "replays", f"{prop}-{h}.json")
        with open(path, "w") as fh:
            json.dump({"property": prop, "module": mod.__name__, "cex": cj}, fh, indent=1, default=str)
        key = cj["what"]
        if key in seen_what and len(lines) >= 5:
            continue
        seen_what.add(key)
        lines.append(f"VIOLATION property={prop} replay={path}  # {cj['what']}")
    for k in known:
        if k["status"] == "open":
            n = len(known_hits.get(k["id"], []))
            print(f"KNOWN-FINDING: property={prop} {k['what']} [{k['id']}; observed on {n} path(s) this run]")
    for ln in lines[:10]:
        print(ln)
    from . import load
    samples = []
    for r in results:
        for s in r["samples"]:
            if len(samples) < 6:
                samples.append(s)
    if not samples:
        samples = [{"case": results[0]["case"]}] if results else ["<none>"]
    cov = {
        "states": stats["paths"],
        "transitions": max(stats["decisions"] + stats["q_feas"] + stats["q_assert"] + stats["q_conc"], stats["paths"], 1),
        "transitions_definition": "engine decisions (branch / choose / concretize) + solver queries issued; at least one per explored path",
        "engine_decisions": stats["decisions"],
        "traces_validated_against_impl": stats["replayed"],
        "samples": samples,
        "exhaustive": not errors and not any(r.get("stopped_early") for r in results),
        "cases": len(results),
        "queries": {"feasibility": stats["q_feas"], "assertion": stats["q_assert"],
                    "concretization": stats["q_conc"]},
        "solver_verdicts": {"unsat": stats["unsat"], "sat": stats["sat"], "unknown": stats["unknown"]},
        "assertions_discharged": stats["proved"],
        "paths_dropped_by_assumption": stats["dropped"],
        "out_of_bounds_concretizations": stats["out_of_bounds"],
        "spurious_models": stats["spurious"],
        "solver_s": stats["solver_s"],
        "functions_encoded": named,
        "functions_entered_in_profiled_cases": sorted(entered & set(named)) if entered else [],
        "functions_named_but_not_entered_in_profiled_cases": not_entered,
        "source_hashes": load.source_hashes(),
        "bounds": getattr(mod, "BOUNDS", {}).get(tier, ""),
        "outside_bounds": getattr(mod, "OUTSIDE", ""),
        "outcome_classes": notes,
        "known_findings_hit": {k: len(v) for k, v in known_hits.items()},
        "solver": "z3 " + __import__("z3").get_version_string(),
    }
    if extra_cov:
        cov.update(extra_cov)
    level = getattr(mod, "LEVEL", "model_checking")
    if level == "translation_validation":
        cov["programs"] = notes.get("programs", stats["paths"])
        cov["disagreements_checked"] = stats["replayed"] + stats["spurious"]
    ev = {
        "property_id": prop,
        "tier": tier,
        "seed": int(seed),
        "level": level,
        "coverage": cov,
        "assumptions": list(getattr(mod, "ASSUMPTIONS", [])),
        "wall_s": round(wall, 2),
        "violations": len(violations),
    }
    if errors:
        ev["coverage"]["inconclusive"] = errors[:5]
    evdir = os.environ.get("VERIF_EVIDENCE_DIR") or os.path.join(VERIF, "evidence")
    os.makedirs(evdir, exist_ok=True)
    with open(os.path.join(evdir, f"{prop}.json"), "w") as fh:
        json.dump(ev, fh, indent=1, default=str)
    print(f"{prop} {tier}: cases={len(results)} paths={stats['paths']} decisions={stats['decisions']} "
          f"queries={stats['q_feas'] + stats['q_assert'] + stats['q_conc']} "
          f"(unsat={stats['unsat']} sat={stats['sat']} unknown={stats['unknown']}) "
          f"proved={stats['proved']} replayed={stats['replayed']} spurious={stats['spurious']} "
          f"solver={stats['solver_s']:.1f}s wall={wall:.1f}s classes={notes}")
    if violations:
        return 1
    if errors:
        for e in errors[:5]:
            print("INCONCLUSIVE:", e, file=sys.stderr)
        return 2
    return 0


def do_replay(mod, prop, path):
    with open(path) as fh:
        d = json.load(fh)
    cj = d["cex"]
    cex = CounterExample.from_json(cj)
    case = cj["case"]
    if hasattr(mod, "setup_case"):
        mod.setup_case(case)
    rep = replay(mod, case, cex)
    print(json.dumps({"case": case, "values": cj["values"], "choices": cj["choices"],
                      "what": cj["what"], "detail": cj.get("detail")}, indent=1, default=str))
    if rep["reproduced"]:
        print(f"VIOLATION property={prop} replay={path}  # reproduced: {rep['failed']}")
        return 1
    print("replay: assertion holds on the current tree")
    return 0

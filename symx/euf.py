"""SymVal: "any Python value whatsoever".

An uninterpreted sort Val with one uninterpreted function per Python operator /
builtin.  Validity of `deferred == direct` in EUF means the identity holds for
every value type (ints, floats, bools, complex, numpy scalars and arrays, ...)
because nothing is assumed about the operators except that they are functions.
Comparisons are normalised by the converse law (a > b is lt(b, a), a >= b is
le(b, a)), which holds for every numeric type the property quantifies over, so
that Python's reflected comparison protocol is representable.
"""
import z3

from .core import Inconclusive

V = z3.DeclareSort("Val")
_FN = {}
_LIT = {}


def fn(name, n):
    k = (name, n)
    if k not in _FN:
        _FN[k] = z3.Function(name, *([V] * (n + 1)))
    return _FN[k]


def lit(x):
    """Injection of a concrete Python constant (distinct per type and repr)."""
    k = (type(x).__name__, repr(x))
    if k not in _LIT:
        _LIT[k] = z3.Const(f"lit_{k[0]}_{k[1]}", V)
    return _LIT[k]


def lift(o):
    if isinstance(o, SymVal):
        return o.e
    if isinstance(o, tuple):
        return fn(f"tuple{len(o)}", len(o))(*[lift(x) for x in o]) if o else lit(())
    return lit(o)


def _is_ref(o):
    # never import xdeps here: recognise refs structurally
    return hasattr(o, "_get_value") and hasattr(o, "_get_dependencies")


class SymVal:
    __slots__ = ("e",)

    def __init__(self, e):
        self.e = e

    def __hash__(self):
        return 0

    def __repr__(self):
        return f"<{self.e}>"

    def __bool__(self):
        raise Inconclusive("truth value of an arbitrary symbolic value")

    def __round__(self, n=None):
        if n is None:
            return SymVal(fn("round1", 1)(self.e))
        return SymVal(fn("round2", 2)(self.e, lift(n)))

    def __getitem__(self, k):
        return SymVal(fn("getitem", 2)(self.e, lift(k)))

    def __call__(self, *args, **kwargs):
        names = list(kwargs)          # keyword arguments in the order received (PEP 468): a callee may depend on it
        f = fn("call_%d_%s" % (len(args), "_".join(names)), 1 + len(args) + len(names))
        return SymVal(f(self.e, *[lift(a) for a in args], *[lift(kwargs[n]) for n in names]))

    def __eq__(self, o):
        if _is_ref(o):
            return NotImplemented
        return SymVal(fn("eq", 2)(self.e, lift(o)))

    def __ne__(self, o):
        if _is_ref(o):
            return NotImplemented
        return SymVal(fn("ne", 2)(self.e, lift(o)))


def _mk2(name, rev=False, conv=None):
    def f(s, o):
        if _is_ref(o):
            return NotImplemented
        a, b = s.e, lift(o)
        if rev:
            a, b = b, a
        if conv:
            return SymVal(fn(conv, 2)(b, a))
        return SymVal(fn(name, 2)(a, b))
    return f


def _mk1(name):
    return lambda s: SymVal(fn(name, 1)(s.e))


for _op in ["add", "sub", "mul", "matmul", "truediv", "floordiv", "mod", "pow", "and", "or", "xor",
            "rshift", "lshift", "divmod"]:
    setattr(SymVal, f"__{_op}__", _mk2(_op))
    setattr(SymVal, f"__r{_op}__", _mk2(_op, True))
SymVal.__lt__ = _mk2("lt")
SymVal.__le__ = _mk2("le")
SymVal.__gt__ = _mk2("gt", conv="lt")
SymVal.__ge__ = _mk2("ge", conv="le")
for _op in ["neg", "pos", "invert", "abs", "trunc", "floor", "ceil"]:
    setattr(SymVal, f"__{_op}__", _mk1(_op))


def getattr_term(obj_term, name):
    return SymVal(fn("getattr", 2)(obj_term, lit(name)))


class EContainer:
    """Container whose item/attribute access is an uninterpreted function of
    (container, key): supports computed (symbolic) keys."""

    def __init__(self, name):
        object.__setattr__(self, "_t", z3.Const(name, V))
        object.__setattr__(self, "_w", {})

    def __getitem__(self, k):
        return SymVal(fn("getitem", 2)(self._t, lift(k)))

    def __getattr__(self, k):
        if k.startswith("__"):
            raise AttributeError(k)
        return SymVal(fn("getattr", 2)(self._t, lit(k)))

"""./check <ID> [--tier quick|thorough] [--replay path] [--procs N] [--case k]"""
import argparse
import os
import sys


def main():
    ap = argparse.ArgumentParser()
    ap.add_argument("prop")
    ap.add_argument("--tier", default=os.environ.get("VERIF_TIER", "quick"), choices=["quick", "thorough"])
    ap.add_argument("--replay", default=None)
    ap.add_argument("--procs", type=int, default=None)
    ap.add_argument("--case", type=int, default=None)
    a = ap.parse_args()
    seed = int(os.environ.get("VERIF_SEED", "0") or 0)
    prop = a.prop.upper()
    modname = f"checks.{prop.lower()}"
    from symx import driver
    try:
        __import__(modname)
    except ImportError as e:
        print(f"no check module for {prop}: {e}", file=sys.stderr)
        return 2
    mod = sys.modules[modname]
    if hasattr(mod, "main"):
        return mod.main(a.tier, seed, a.replay, a.procs)
    return driver.main(modname, prop, a.tier, seed, a.replay, a.procs, a.case)


if __name__ == "__main__":
    sys.exit(main())

"""C14 - every Table the API produces is rectangular and leaves its source untouched.

Model-based symbolic execution of the real table.py: a pool of tables starts
with one built by the checked constructor (0..3 rows, int / float-like / string /
object columns, a scalar entry; numeric cells are z3 Ints) and grows by chains of
derivations (rows / cols / + / * / concatenate / _copy / _t) and structural
column changes on derived tables (new column, del, pop) - all engine decisions.
After EVERY operation EVERY table of the pool is compared with its model:
  * all listed columns present, all of length len(table), index among them,
    scalars carried over to row and column selections;
  * each cell is the source cell the operation denotes (identity / z3 equality,
    for all cell values; row selectors include symbolic value ranges);
  * sources keep their length, column list and cells (this is where aliasing
    between a derived table and its source shows);
  * column expressions t['a+2*b'], t.cols['a+b'] equal the element-wise term.
"""
import itertools

import numpy as np
import z3

from symx.driver import get_xdeps
from symx.values import eq, tobool
from symx.core import Abort, Inconclusive

ID = "C14"
LEVEL = "model_checking"
FUNCTIONS = [
    "table.py:Table.__init__", "table.py:Table._select_rows", "table.py:Table._select_cols", "table.py:_RowView.__getitem__",
    "table.py:_ColView.__getitem__", "table.py:Table.__add__", "table.py:Table._concatenate_table", "table.py:Table.__mul__",
    "table.py:Table._copy", "table.py:Table.concatenate", "table.py:Table._t", "table.py:Table.__getitem__",
    "table.py:Table.__setitem__", "table.py:Table.__delitem__", "table.py:Table.pop",
]
ASSUMPTIONS = [
    "numeric cells are Python ints (z3 Int); strings, column names and lengths are concrete per path",
    "in-place cell writes into a derived table are outside: numpy arrays are deliberately shared between a table and its copies/views; structural changes (new / deleted columns) are inside",
    "string formatting (show), pandas/tfs constructors are outside",
]
BOUNDS = {
    "quick": "source tables with 0..3 rows (int / float / string / object columns and a 2-D column holding one vector per row); chains of <=3 operations out of {rows (positions, mask, slice, symbolic value range), cols, +, * (1..2), concatenate, _copy, _t, new column, del column, pop column} "
             "over the pool (third operation restricted to structural changes and re-derivations), every table re-checked after every operation; column expressions on every table",
    "thorough": "0..4 rows, chains of 3 unrestricted operations",
}
OUTSIDE = "in-place cell writes through shared arrays; tables wider than 4 columns"
REQUIRED_CLASSES = ["tables_checked", "source_rechecked", "expr_column", "structural_change", "scalar_carried"]
PROFILE_CASES = 4
TASKS_PER_CHILD = 100


def note(ex, k, n=1):
    ex.notes[k] = ex.notes.get(k, 0) + n


class Model:
    """expected content of one table"""

    def __init__(self, cols, index, scalars, label, ordered=True):
        self.cols = cols            # ordered dict name -> list of cells
        self.index = index
        self.scalars = dict(scalars)
        self.label = label
        self.ordered = ordered

    def nrows(self):
        return len(next(iter(self.cols.values()))) if self.cols else 0

    def copy(self, label):
        return Model({k: list(v) for k, v in self.cols.items()}, self.index, self.scalars, label)


def check_table(ex, t, mo, det):
    """real table vs model"""
    note(ex, "tables_checked")
    names = list(t._col_names)
    want = list(mo.cols)
    if (names != want) if mo.ordered else (sorted(names) != sorted(want)):
        ex.fail(f"{mo.label}: column list {names}, expected {want}", det)
        return False
    if t._index not in names:
        ex.fail(f"{mo.label}: index column {t._index!r} is not among the columns {names}", det)
        return False
    n = mo.nrows()
    try:
        ln = len(t)
    except Exception as e:
        ex.fail(f"{mo.label}: len() raised {type(e).__name__}: {e}", det)
        return False
    if ln != n:
        ex.fail(f"{mo.label}: len(table) = {ln}, expected {n}", det)
        return False
    for c in names:
        if c not in t._data:
            ex.fail(f"{mo.label}: listed column {c!r} is not present", det)
            return False
        col = t._data[c]
        try:
            col = list(col)
        except Exception as e:
            ex.fail(f"{mo.label}: column {c!r} is not a column: {e}", det)
            return False
        if len(col) != n:
            ex.fail(f"{mo.label}: column {c!r} has length {len(col)}, table length is {n}", det)
            return False
        for i, (got, exp) in enumerate(zip(col, mo.cols[c])):
            if got is exp:
                continue
            if isinstance(exp, np.ndarray) or isinstance(got, np.ndarray):
                if not (isinstance(got, np.ndarray) and isinstance(exp, np.ndarray) and got.shape == exp.shape and np.array_equal(got, exp)):
                    ex.fail(f"{mo.label}: cell {c}[{i}] (a vector per row) is {got!r}, expected {exp!r}", det)
                    return False
            elif isinstance(exp, str) or isinstance(got, str):
                if str(got) != str(exp):
                    ex.fail(f"{mo.label}: cell {c}[{i}] is {got!r}, expected {exp!r}", det)
                    return False
            elif not ex.prove(eq(got, exp), f"{mo.label}: cell {c}[{i}] differs from the cell the operation denotes", det):
                return False
    for k, v in mo.scalars.items():
        note(ex, "scalar_carried")
        if k not in t._data or t._data[k] != v:
            ex.fail(f"{mo.label}: scalar entry {k!r} not carried over", det)
            return False
    return True


def check_exprs(ex, t, mo, det):
    if "a" not in mo.cols or "b" not in mo.cols:
        return True
    note(ex, "expr_column")
    try:
        got = list(t["a+2*b"])
        sub = t.cols["a+b"]
        got2 = list(sub["a+b"])
    except (Abort, Inconclusive):
        raise
    except Exception as e:
        ex.fail(f"{mo.label}: column expression raised {type(e).__name__}: {e}", det)
        return False
    if len(got) != mo.nrows() or len(got2) != mo.nrows() or len(sub) != mo.nrows():
        ex.fail(f"{mo.label}: column expression has length {len(got)}/{len(got2)}, table length {mo.nrows()}", det)
        return False
    for i in range(mo.nrows()):
        a, b = mo.cols["a"][i], mo.cols["b"][i]
        if not ex.prove(eq(got[i], a + 2 * b), f"{mo.label}: t['a+2*b'][{i}] != a+2*b", det):
            return False
        if not ex.prove(eq(got2[i], a + b), f"{mo.label}: t.cols['a+b'][{i}] != a+b", det):
            return False
    if sub._index not in sub._col_names or any(len(sub._data[c]) != len(sub) for c in sub._col_names):
        ex.fail(f"{mo.label}: t.cols['a+b'] is not rectangular", det)
        return False
    return True


def source_table(ex, xd, n, tag):
    names = ["x", "y", "x"][:n]
    cols = {
        "name": list(names),
        "a": [ex.int(f"{tag}a{i}") for i in range(n)],
        "b": [ex.int(f"{tag}b{i}") for i in range(n)],
        "o": [ex.int(f"{tag}o{i}") for i in range(n)],
        "w": [float(i) + 0.5 for i in range(n)],
        "vec": [np.array([10.0 * i + 1, 10.0 * i + 2]) for i in range(n)],
    }
    data = {"name": np.array(names) if n else np.array([], dtype="U1"),
            "a": np.array(cols["a"], dtype=object), "b": np.array(cols["b"], dtype=object),
            "o": np.array(cols["o"], dtype=object), "w": np.array(cols["w"], dtype=float),
            "vec": np.array(cols["vec"], dtype=float).reshape(n, 2), "sc": 42}
    t = xd.Table(data, col_names=["name", "a", "b", "o", "w", "vec"])
    return t, Model(cols, "name", {"sc": 42}, tag)


def ops_for(pool, restricted):
    """operation descriptors applicable to the current pool"""
    out = []
    for ti, (t, mo) in enumerate(pool):
        n = mo.nrows()
        derived = ti > 0 and not mo.label.startswith("S")
        if mo.index != "name":
            continue        # transposed tables are only checked, not derived from further
        if not restricted:
            sels = [("list", [0] if n else []), ("list", list(range(n))[::-1]), ("mask", [i % 2 == 0 for i in range(n)]),
                    ("slice", (1, None)), ("range", None), ("none", None)]
            if n >= 2:
                sels.append(("list", [n - 1, 0, 0]))
            for s in sels:
                out.append(("rows", ti, s))
            for cs in ("a", "b o", ["w", "a"], None):
                if cs is None or all(c in mo.cols for c in (cs.split() if isinstance(cs, str) else cs)):
                    out.append(("cols", ti, cs))
            out.append(("mul", ti, 1))
            out.append(("mul", ti, 2))
            out.append(("t", ti))
        out.append(("copy", ti))
        for tj, (u, mu) in enumerate(pool):
            if mu.index == "name" and sorted(mu.cols) == sorted(mo.cols) and (tj <= ti + 1):
                out.append(("add", ti, tj))
                if not restricted:
                    out.append(("concatenate", ti, tj))
        if derived or restricted:
            pass
        if ti > 0:
            out.append(("newcol", ti))
            for c in ("w", "b"):
                if c in mo.cols:
                    out.append(("del", ti, c))
                    out.append(("pop", ti, c))
    return out


def apply_op(ex, xd, pool, op):
    kind = op[0]
    t, mo = pool[op[1]]
    n = mo.nrows()
    lab = f"T{len(pool)}={kind}({mo.label})"
    if kind == "rows":
        sk, sv = op[2]
        if sk == "list":
            res = t.rows[list(sv)]
            idx = list(sv)
        elif sk == "mask":
            res = t.rows[np.array(sv, dtype=bool)] if n else t.rows[[]]
            idx = [i for i, b in enumerate(sv) if b]
        elif sk == "slice":
            res = t.rows[slice(*sv)]
            idx = list(range(n))[slice(*sv)]
        elif sk == "none":
            res = t.rows[None]
            idx = list(range(n))
        else:
            if "a" not in mo.cols:
                return None
            lo, hi = ex.int("rlo"), ex.int("rhi")
            res = t.rows[lo:hi:"a"]
            # the selection is concrete on this path: identify rows through the 'o' column when present
            idx = None
            got_a = list(res["a"])
            src_a = mo.cols["a"]
            idx = []
            k = 0
            for i in range(n):
                inr = z3.And(tobool(lo <= src_a[i]), tobool(src_a[i] <= hi))
                if k < len(got_a) and got_a[k] is src_a[i]:
                    if not ex.prove(inr, f"{lab}: row {i} selected although not lo <= a <= hi"):
                        return "failed"
                    idx.append(i)
                    k += 1
                else:
                    if not ex.prove(z3.Not(inr), f"{lab}: row {i} not selected although lo <= a <= hi"):
                        return "failed"
            if k != len(got_a):
                ex.fail(f"{lab}: selection contains rows that are not source rows in table order")
                return "failed"
        m2 = Model({c: [v[i] for i in idx] for c, v in mo.cols.items()}, mo.index, mo.scalars, lab, ordered=mo.ordered)
        return res, m2
    if kind == "cols":
        cs = op[2]
        res = t.cols[cs]
        want = list(mo.cols) if cs is None else (cs.split() if isinstance(cs, str) else list(cs))
        if mo.index not in want:
            want = [mo.index] + want
        m2 = Model({c: list(mo.cols[c]) for c in want}, mo.index, mo.scalars, lab, ordered=mo.ordered or cs is not None)
        return res, m2
    if kind == "mul":
        res = t * op[2]
        m2 = Model({c: list(v) * op[2] for c, v in mo.cols.items()}, mo.index, {}, lab, ordered=mo.ordered)
        return res, m2
    if kind == "copy":
        res = t._copy()
        return res, Model({c: list(v) for c, v in mo.cols.items()}, mo.index, {}, lab, ordered=mo.ordered)
    if kind == "add":
        u, mu = pool[op[2]]
        res = t + u
        return res, Model({c: list(v) + list(mu.cols[c]) for c, v in mo.cols.items()}, mo.index, {}, lab + f"+{mu.label}", ordered=mo.ordered)
    if kind == "concatenate":
        u, mu = pool[op[2]]
        res = xd.Table.concatenate([t, u])
        m2 = Model({c: list(v) + list(mu.cols[c]) for c, v in mo.cols.items()}, "name", {}, lab, ordered=False)
        return res, m2
    if kind == "t":
        res = t._t
        cols = {"columns": list(mo.cols)}
        for i in range(n):
            cols[f"row{i}"] = None
        # only rectangularity is checked for the transposed table (cells are str() of the source cells)
        ok = res._index in res._col_names and all(len(res._data[c]) == len(res) for c in res._col_names) and len(res) == len(mo.cols)
        if not ok:
            ex.fail(f"{lab}: transposed table is not rectangular")
            return "failed"
        return None
    # structural changes of an existing (derived) table
    note(ex, "structural_change")
    if kind == "newcol":
        vals = [ex.int(f"z{len(pool)}_{i}") for i in range(n)]
        t["z"] = np.array(vals, dtype=object)
        if n or True:
            mo.cols["z"] = vals
        mo.label += "+z"
        return None
    if kind in ("del", "pop"):
        c = op[2]
        if kind == "del":
            del t[c]
        else:
            t.pop(c)
        del mo.cols[c]
        mo.label += f"-{c}"
        return None
    raise ValueError(kind)


def run_case(ex, case):
    xd = get_xdeps("pure")
    n = case["n"]
    t0, m0 = source_table(ex, xd, n, "S")
    pool = [(t0, m0)]
    if case.get("second"):
        t1, m1 = source_table(ex, xd, case["second"], "S2_")
        pool.append((t1, m1))
    hist = []
    det = {"rows": n, "ops": hist}
    for (t, mo) in pool:
        if not check_table(ex, t, mo, det) or not check_exprs(ex, t, mo, det):
            return
    for step in range(case["K"]):
        ops = ops_for(pool, restricted=(step >= 2 and case.get("restrict3", True)))
        if step == 0 and case.get("first") is not None:
            if case["first"] >= len(ops):
                return
            op = ops[case["first"]]
        else:
            op = ops[ex.choose(len(ops))]
        hist.append(str(op))
        try:
            r = apply_op(ex, xd, pool, op)
        except (Abort, Inconclusive):
            raise
        except Exception as e:
            ex.fail(f"operation {op} raised {type(e).__name__}: {e}", det)
            return
        if r == "failed":
            return
        if r is not None:
            pool.append(r)
        for k, (t, mo) in enumerate(pool):
            if k < len(pool) - 1 or r is None:
                note(ex, "source_rechecked")
            if not check_table(ex, t, mo, det):
                return
        if r is not None and not check_exprs(ex, r[0], r[1], det):
            return
    if len(ex.samples) < 1:
        ex.samples.append({"ops": list(hist)})


def cases(tier):
    out = []
    maxn = 3 if tier == "quick" else 4
    for n in range(0, maxn + 1):
        nops = 40
        for first in range(nops):
            out.append({"n": n, "K": 3 if n <= 2 or tier != "quick" else 2, "first": first, "restrict3": tier == "quick"})
    for first in range(40):
        out.append({"n": 2, "second": 1, "K": 2, "first": first})
    return out

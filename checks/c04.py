"""C04 - deferred expressions evaluate to what Python computes on the operands.

Every operator method of the reference classes is discovered by introspection
of the loaded module and exercised by a case; on each case the real overloads
build the deferred node, the real `_get_value` evaluates it on *symbolic*
operands, and z3 proves the result equal to the same Python operator applied
directly to the same operands:
  dom=euf   operands are of an uninterpreted sort (any Python value): validity
            in EUF = the identity holds for every value type;
  dom=int / dom=real   z3 Int / Real operands, forking on "divisor is zero"
            (Python raises there; the deferred value must be NaN);
  dom=pool  a concrete pool (ints, floats incl. -0.0/nan, bool, complex, numpy
            scalars, small arrays) compared by value *and type*; used to obtain a
            replayable witness (EUF models are not concrete Python values).
"""
import math
import operator
import re

import numpy as np
import z3

from symx.driver import get_xdeps
from symx.core import Abort, Inconclusive
from symx import euf
from symx.euf import SymVal
from symx.values import SymInt, SymReal, SymBool, tobool, is_sym

ID = "C04"
LEVEL = "model_checking"
FUNCTIONS = [
    "refs.py:BaseRef._mk_value", "refs.py:BaseRef.__add__", "refs.py:BaseRef.__radd__", "refs.py:BaseRef.__rsub__",
    "refs.py:AddExpr._get_value", "refs.py:TruedivExpr._get_value", "refs.py:FloordivExpr._get_value",
    "refs.py:ModExpr._get_value", "refs.py:BuiltinRef._get_value", "refs.py:CallRef._get_value",
    "refs.py:ItemRef._get_value", "refs.py:AttrRef._get_value", "refs.py:MutableRef.__iadd__",
    "refs.py:MutableRef.__iand__", "refs.py:BaseRef.__round__", "refs.py:NegExpr._get_value",
    "tasks.py:Manager.set_value",
]
ASSUMPTIONS = [
    "dom=euf: operators are arbitrary functions of their operands; comparisons normalised by the converse law a>b == b<a (holds for every numeric type in the property's domain)",
    "dom=int/real: Python int = z3 Int (exact); float = z3 Real (rounding not modelled); sym*sym, pow, bit operations are uninterpreted functions on both sides",
    "values that make Python raise: covered for ZeroDivisionError (forked) and for TypeError of unsupported operand types (same exception type on both sides); other exceptions not modelled",
    "a numpy object standing to the left of a ref is excluded (as in the property)",
    "depth: structural induction - a node reaches its children only through BaseRef._mk_value; one level with arbitrary children (leaf ref, nested node, literal) plus explicit depth-2 trees",
]
BOUNDS = {
    "quick": "all operator methods found by introspection x {ref-ref, ref-literal, literal-ref} x 4 domains, depth 1 and depth 2 over 9 inner shapes (either operand; both operands nested for 6 operators), depth-3 spines over 5 operators; 13 in-place operators x {value, expr} x {literal, ref operand}; values unbounded (pool domain: 12 values per operand)",
    "thorough": "same with depth-3 spines over 7 operators, both builds",
}
OUTSIDE = "numpy object left of a ref; exceptions other than ZeroDivisionError/TypeError; float rounding (real domain)"
REQUIRED_CLASSES = ["euf_valid", "zero_division_nan", "inplace_checked", "inplace_with_foreign_target", "raise_consistent", "callee_replaced"]
PROFILE_CASES = 40
TASKS_PER_CHILD = 500

BIN = {
    "add": operator.add, "sub": operator.sub, "mul": operator.mul, "matmul": operator.matmul,
    "truediv": operator.truediv, "floordiv": operator.floordiv, "mod": operator.mod, "pow": operator.pow,
    "and": operator.and_, "or": operator.or_, "xor": operator.xor, "lshift": operator.lshift,
    "rshift": operator.rshift, "lt": operator.lt, "le": operator.le, "gt": operator.gt, "ge": operator.ge,
    "divmod": divmod,
}
UN = {"neg": operator.neg, "pos": operator.pos, "invert": operator.invert, "abs": abs,
      "trunc": math.trunc, "floor": math.floor, "ceil": math.ceil, "round": round}
INPLACE = {"iadd": "add", "isub": "sub", "imul": "mul", "imatmul": "matmul", "itruediv": "truediv",
           "ifloordiv": "floordiv", "imod": "mod", "ipow": "pow", "ilshift": "lshift", "irshift": "rshift",
           "iand": "and", "ior": "or", "ixor": "xor"}
INPLACE_SYM = {"iadd": "+=", "isub": "-=", "imul": "*=", "imatmul": "@=", "itruediv": "/=", "ifloordiv": "//=",
               "imod": "%=", "ipow": "**=", "ilshift": "<<=", "irshift": ">>=", "iand": "&=", "ior": "|=", "ixor": "^="}
# methods of BaseRef that are not Python operator protocol (never called by an operator)
NOT_PROTOCOL = {"__rlt__", "__rle__", "__rge__", "__rgt__"}
STRUCTURAL = {"__init__", "__hash__", "__reduce__", "__eq__", "__call__", "__getitem__", "__getattr__",
              "__setitem__", "__setattr__", "__repr__", "__cinit__", "__module__", "__doc__", "__dict__",
              "__weakref__", "__qualname__", "__annotations__", "__firstlineno__", "__static_attributes__",
              "__pyx_vtable__", "__reduce_cython__", "__setstate_cython__", "__new__", "__ne__", "__delattr__",
              "__delitem__", "__ge__", "__gt__", "__le__", "__lt__"}
DIVOPS = ("truediv", "floordiv", "mod")
INNER = ["leaf", "neg", "mul_lit", "abs", "call1", "item_computed", "attr", "pow", "fdiv", "divmod0"]


def discover(xd):
    """Operator protocol methods defined by the reference classes."""
    R = xd.refs
    found = {"bin": set(), "rbin": set(), "un": set(), "inplace": set(), "unknown": set()}
    names = set()
    for cls in (R.BaseRef, R.MutableRef):
        names |= {n for n in dir(cls) if re.fullmatch(r"__\w+__", n)}
    base_obj = set(dir(object))
    for n in sorted(names - base_obj | {"__lt__", "__le__", "__gt__", "__ge__"}):
        core = n[2:-2]
        if n in NOT_PROTOCOL:
            continue
        if core in BIN and getattr(R.BaseRef, n, None) is not None:
            found["bin"].add(core)
        elif core.startswith("r") and core[1:] in BIN:
            found["rbin"].add(core[1:])
        elif core in UN:
            found["un"].add(core)
        elif core in INPLACE:
            found["inplace"].add(core)
        elif n in STRUCTURAL or n in base_obj:
            continue
        else:
            found["unknown"].add(n)
    return found


def node_classes(xd):
    R = xd.refs
    abstract = {"BaseRef", "MutableRef", "BinOpExpr", "UnaryOpExpr"}
    out = []
    for n, c in vars(R).items():
        if isinstance(c, type) and issubclass(c, R.BaseRef) and n not in abstract:
            out.append(n)
    return sorted(out)


# ------------------------------------------------------------------ domains
class Dom:
    def __init__(self, ex, dom):
        self.ex, self.dom = ex, dom
        self.n = 0

    def fresh(self, name):
        self.n += 1
        nm = f"{name}{self.n}"
        if self.dom == "euf":
            return SymVal(z3.Const(nm, euf.V))
        if self.dom == "int":
            return self.ex.int(nm)
        if self.dom == "real":
            return self.ex.real(nm)
        if self.dom == "pool":
            return [6, 3, 5, 2, 7, 4, 9, 8][self.n % 8]
        raise ValueError

    def func(self, name, n):
        if self.dom == "euf":
            t = SymVal(z3.Const("fn_" + name, euf.V))
            return lambda *a, **k: t(*a, **k)
        if self.dom == "pool":
            def gp(*a, **k):
                if a and isinstance(a[0], (int, float)) and a[0] == 0:
                    raise ZeroDivisionError("raised by the user function")
                return ("g", a, tuple(k.items()))          # keyword order as received
            return gp
        f = {}

        def g(*a, **k):
            # keyword arguments are seen in the order received (PEP 468): another order is another function
            key = (len(a), tuple(k))
            sort = "int" if self.dom == "int" else "real"
            if key not in f:
                nm = f"{name}_{len(a)}_{'_'.join(k)}"
                f[key] = (self.ex.func(nm, len(a) + len(k), sort), self.ex.func(nm + "_raises", len(a) + len(k), sort))
            args = list(a) + [k[n] for n in k]
            # a user function may raise: "raises ZeroDivisionError" is an
            # uninterpreted predicate of the arguments (deterministic)
            if f[key][1](*args) == 1:
                raise ZeroDivisionError("raised by the user function")
            return f[key][0](*args)
        return g

    def container(self, name):
        if self.dom == "euf":
            return euf.EContainer(name)
        if self.dom == "pool":
            return {}
        fi = self.ex.func(f"{name}_item", 1, "int" if self.dom == "int" else "real")

        class C:
            def __getitem__(s, k):
                return fi(k)
        return C()


class Obj:
    pass


class Sink:
    """reads go to the domain's container, writes are recorded only"""

    def __init__(self, cont):
        self.cont = cont
        self.writes = []

    def __getitem__(self, k):
        return self.cont[k]

    def __setitem__(self, k, v):
        self.writes.append((k, v))


def outcome(f, *a):
    try:
        return ("val", f(*a))
    except (Abort, Inconclusive):
        raise
    except Exception as e:
        return ("raise", type(e).__name__)


def same(a, b):
    """z3 Bool: value equality of two results (structure must agree)."""
    if isinstance(a, tuple) or isinstance(b, tuple):
        if not (isinstance(a, tuple) and isinstance(b, tuple) and len(a) == len(b)):
            return z3.BoolVal(False)
        return z3.And(*[same(x, y) for x, y in zip(a, b)]) if a else z3.BoolVal(True)
    if isinstance(a, SymVal) or isinstance(b, SymVal):
        return euf.lift(a) == euf.lift(b)
    if is_sym(a) or is_sym(b):
        if isinstance(a, SymBool) or isinstance(b, SymBool):
            if (isinstance(a, (SymBool, bool)) and isinstance(b, (SymBool, bool))):
                return tobool(a) == tobool(b)
            return z3.BoolVal(False)
        ta = "real" if isinstance(a, (SymReal, float)) else "int"
        tb = "real" if isinstance(b, (SymReal, float)) else "int"
        if ta != tb:
            return z3.BoolVal(False)      # int vs float: type differs
        r = (a == b)
        return tobool(r)
    return z3.BoolVal(strict_same(a, b))


def strict_same(a, b):
    """Concrete comparison by value and type (NaN == NaN, arrays elementwise)."""
    if type(a) is not type(b):
        return False
    if isinstance(a, tuple):
        return len(a) == len(b) and all(strict_same(x, y) for x, y in zip(a, b))
    if isinstance(a, np.ndarray):
        return a.dtype == b.dtype and a.shape == b.shape and bool(np.array_equal(a, b, equal_nan=True))
    try:
        if a != a and b != b:
            return True
    except Exception:
        pass
    if isinstance(a, float) and a == 0 and b == 0:
        return math.copysign(1, a) == math.copysign(1, b)
    r = a == b
    return bool(r)


def is_nan(v):
    return isinstance(v, float) and v != v


class Ctx:
    """One manager over containers with fresh operands of a domain."""

    def __init__(self, ex, case):
        self.ex = ex
        self.xd = get_xdeps(case["build"])
        self.D = Dom(ex, case["dom"])
        D = self.D
        self.m = self.xd.Manager()
        self.vals = {k: D.fresh(k) for k in ("a", "b", "c", "k")}
        o = Obj()
        o.x = D.fresh("ox")
        self.vals["o"] = o
        self.d = dict(self.vals)
        self.r = self.m.ref(self.d, "d")
        self.cont = D.container("tab")
        self.rc = self.m.ref(self.cont, "tab")
        fo = Obj()
        fo.g = D.func("g", 2)
        self.fo = fo
        self.fr = self.m.ref(fo, "f")
        self.lits = {}
        self.classes = set()

    def lit(self, name):
        if name not in self.lits:
            self.lits[name] = self.D.fresh("L" + name)
        return self.lits[name]

    # tree -> (deferred expression, direct thunk)
    def both(self, t):
        k = t[0]
        r, d = self.r, self.d
        if k == "leaf":
            return r[t[1]], (lambda: d[t[1]])
        if k == "lit":
            v = self.lit(t[1])
            return v, (lambda: v)
        if k == "attr":
            return r["o"].x, (lambda: d["o"].x)
        if k == "item_computed":
            return self.rc[r["k"]], (lambda: self.cont[d["k"]])
        if k == "bin":
            f = BIN[t[1]]
            e1, d1 = self.both(t[2])
            e2, d2 = self.both(t[3])
            if t[1] in DIVOPS:
                def dd():
                    x, y = d1(), d2()
                    try:
                        return f(x, y)
                    except ZeroDivisionError:
                        return float("nan")
                return f(e1, e2), dd
            return f(e1, e2), (lambda: f(d1(), d2()))
        if k == "index0":
            e1, d1 = self.both(t[1])
            return e1[0], (lambda: d1()[0])
        if k == "un":
            f = UN[t[1]]
            e1, d1 = self.both(t[2])
            return f(e1), (lambda: f(d1()))
        if k == "round2":
            e1, d1 = self.both(t[1])
            e2, d2 = self.both(t[2])
            return round(e1, e2), (lambda: round(d1(), d2()))
        if k == "meth":
            e1, d1 = self.both(t[2])
            e2, d2 = self.both(t[3])
            f = {"_eq": operator.eq, "_neq": operator.ne}[t[1]]
            return getattr(e1, t[1])(e2), (lambda: f(d1(), d2()))
        if k == "call":
            es = [self.both(x) for x in t[1]]
            ks = {n: self.both(x) for n, x in t[2]}
            # the callee is an operand too: the direct evaluation looks it up when it runs
            return (self.fr.g(*[e for e, _ in es], **{n: e for n, (e, _) in ks.items()}),
                    (lambda: self.fo.g(*[dd() for _, dd in es], **{n: dd() for n, (_, dd) in ks.items()})))
        raise ValueError(t)

    def collect(self, e):
        R = self.xd.refs
        if isinstance(e, R.BaseRef):
            self.classes.add(type(e).__name__)
            for a in ("_lhs", "_rhs", "_arg", "_owner", "_key", "_func"):
                if hasattr(type(e), a):
                    self.collect(getattr(e, a))
            for a in ("_args", "_params"):
                if hasattr(type(e), a):
                    for x in getattr(e, a):
                        self.collect(x)
            if hasattr(type(e), "_kwargs"):
                for _, x in e._kwargs:
                    self.collect(x)


def inner_tree(kind, leaf):
    if kind == "leaf":
        return ("leaf", leaf)
    if kind == "neg":
        return ("un", "neg", ("leaf", leaf))
    if kind == "mul_lit":
        return ("bin", "mul", ("leaf", leaf), ("lit", "m"))
    if kind == "abs":
        return ("un", "abs", ("leaf", leaf))
    if kind == "call1":
        return ("call", [("leaf", leaf)], [("kw", ("leaf", "c")), ("ab", ("leaf", "k"))])
    if kind == "item_computed":
        return ("item_computed",)
    if kind == "attr":
        return ("attr",)
    if kind == "pow":
        return ("bin", "pow", ("leaf", leaf), ("leaf", "c"))
    if kind == "fdiv":
        return ("bin", "floordiv", ("leaf", leaf), ("leaf", "c"))
    if kind == "divmod0":
        return ("index0", ("bin", "divmod", ("leaf", leaf), ("leaf", "c")))
    raise ValueError(kind)


def make_tree(case):
    k = case["kind"]
    i1 = inner_tree(case.get("in1", "leaf"), "a")
    i2 = inner_tree(case.get("in2", "leaf"), "b")
    if case.get("in2", "leaf") in ("pow", "fdiv", "divmod0"):
        i2 = inner_tree(case["in2"], "b")
    if k == "bin":
        cfg = case["cfg"]
        if cfg == "rr":
            return ("bin", case["op"], i1, i2)
        if cfg == "rl":
            return ("bin", case["op"], i1, ("lit", "q"))
        return ("bin", case["op"], ("lit", "q"), i1)
    if k == "un":
        return ("un", case["op"], i1)
    if k == "round2":
        return ("round2", i1, ("lit", "q") if case["cfg"] == "rl" else i2)
    if k == "meth":
        return ("meth", case["op"], i1, i2 if case["cfg"] == "rr" else ("lit", "q"))
    if k == "call":
        return ("call", [i1, i2] if case["cfg"] == "rr" else [i1, ("lit", "q")], [("kw", ("leaf", "c")), ("ab", ("leaf", "k"))])
    if k == "spine":
        t = ("leaf", "a")
        for op in case["ops"]:
            t = ("bin", op, t, ("leaf", "b")) if op in BIN else ("un", op, t)
        return t
    raise ValueError(k)


def note(ex, k):
    ex.notes[k] = ex.notes.get(k, 0) + 1


def check_tree(ex, ctx, case, tree, tag, built=None):
    """deferred value vs direct evaluation, for all operand values.  The direct
    evaluation applies Python's operator to the operand values; at a / // % node
    a ZeroDivisionError raised *by that operator* becomes NaN (the documented
    deviation) - an error raised while evaluating an operand propagates.
    built: an (expression, direct thunk) pair made earlier (the same expression object again)."""
    try:
        expr, direct = built if built is not None else ctx.both(tree)
    except (Abort, Inconclusive):
        raise
    except TypeError as e:
        # the operator is not defined for this operand configuration at all
        note(ex, "not_constructible")
        return True
    ctx.collect(expr)
    got = outcome(expr._get_value)
    exp = outcome(direct)
    if exp[0] == "raise" or got[0] == "raise":
        note(ex, "raise_consistent")
        if got != exp:
            ex.fail(f"{tag}: direct evaluation gives {exp} but deferred evaluation gives {got}",
                    {"tree": repr(tree)})
            return False
        return True
    if is_nan(exp[1]) or is_nan(got[1]):
        note(ex, "zero_division_nan")
        if not (is_nan(exp[1]) and is_nan(got[1])):
            ex.fail(f"{tag}: NaN mismatch: direct {exp[1]!r} vs deferred {got[1]!r}", {"tree": repr(tree)})
            return False
        return True
    cond = same(got[1], exp[1])
    if case["dom"] == "euf":
        # EUF verdict is recorded, not reported (its models are not Python values):
        r = ex._check("q_assert", z3.Not(cond))
        if r == z3.unsat:
            note(ex, "euf_valid")
            ex.stats.proved += 1
            return True
        raise Inconclusive(f"EUF cannot prove {tag}: deferred {got[1]!r} vs direct {exp[1]!r} "
                           f"(no numeric witness is produced by this domain; see int/real/pool cases)")
    return ex.prove(cond, what=f"{tag}: deferred value != Python's result", detail={"tree": repr(tree),
                                                                                   "deferred": repr(got[1]), "direct": repr(exp[1])})


def _has_div(t):
    if not isinstance(t, tuple):
        return False
    if t and t[0] == "bin" and t[1] in DIVOPS:
        return True
    return any(_has_div(x) for x in t if isinstance(x, (tuple, list))) or any(
        _has_div(tuple(x)) for x in t if isinstance(x, list))


POOL = [0, 1, -3, 7, 2.5, -0.0, float("nan"), True, 2 + 1j, np.float64(1.5), np.int64(4), np.array([1.0, 2.0])]
LITPOOL = [0, 3, -2, 2.5, True, 1j]


def run_pool(ex, case):
    """Concrete value pool: by value and type, on the real code."""
    xd = get_xdeps(case["build"])
    tree = make_tree(case)
    tag = _tag(case)
    import warnings
    warnings.simplefilter("ignore")
    n = 0
    for va in POOL:
        for vb in (POOL if _uses(tree, "b") else [0]):
            for vq in (LITPOOL if _uses_lit(tree) else [0]):
                m = xd.Manager()
                o = Obj()
                o.x = va
                d = {"a": va, "b": vb, "c": 2, "k": 1, "o": o}
                r = m.ref(d, "d")
                tab = {1: vb}
                rc = m.ref(tab, "tab")
                fo = Obj()
                fo.g = Dom(ex, "pool").func("g", 2)
                fr = m.ref(fo, "f")
                ctx = Ctx.__new__(Ctx)
                ctx.ex, ctx.xd, ctx.m, ctx.d, ctx.r, ctx.cont, ctx.rc, ctx.fo, ctx.fr = ex, xd, m, d, r, tab, rc, fo, fr
                ctx.lits = {"q": vq, "m": 2}
                ctx.classes = set()
                ctx.lit = lambda name, c=ctx: c.lits[name]
                try:
                    with np.errstate(all="ignore"):
                        expr, direct = ctx.both(tree)
                        got = outcome(expr._get_value)
                        exp = outcome(direct)
                except TypeError:
                    continue
                n += 1
                if exp[0] == "raise" or got[0] == "raise":
                    ok = got == exp
                else:
                    ok = strict_same(got[1], exp[1])
                if not ok:
                    ex.fail(f"{tag}: a={va!r} b={vb!r} lit={vq!r}: deferred {got} vs Python {exp}",
                            {"tree": repr(tree)})
                    return
    note(ex, "pool_evaluations")
    ex.notes["pool_evaluations"] += n - 1
    ex.stats.proved += 1


def _g(v):
    # results of the pool's `g` embed tuples of operands
    return v


def _uses(t, leaf):
    if isinstance(t, tuple) and t[:2] == ("leaf", leaf):
        return True
    return any(_uses(x, leaf) for x in t if isinstance(x, (tuple, list))) if isinstance(t, (tuple, list)) else False


def _has_call(t):
    if isinstance(t, tuple) and t and t[0] == "call":
        return True
    return any(_has_call(x) for x in t if isinstance(x, (tuple, list))) if isinstance(t, (tuple, list)) else False


def _uses_lit(t):
    if isinstance(t, tuple) and t[:2] == ("lit", "q"):
        return True
    return any(_uses_lit(x) for x in t if isinstance(x, (tuple, list))) if isinstance(t, (tuple, list)) else False


def _tag(case):
    s = f"{case['kind']}:{case.get('op', '')}:{case.get('cfg', '')}"
    if case.get("in1", "leaf") != "leaf" or case.get("in2", "leaf") != "leaf":
        s += f"[{case.get('in1', 'leaf')},{case.get('in2', 'leaf')}]"
    if case["kind"] == "spine":
        s += ">".join(case["ops"])
    return s


def run_expr(ex, case):
    if case["dom"] == "pool":
        return run_pool(ex, case)
    ctx = Ctx(ex, case)
    tree = make_tree(case)
    tag = _tag(case)
    try:
        built = ctx.both(tree)
    except (Abort, Inconclusive):
        raise
    except TypeError:
        built = None
    if not check_tree(ex, ctx, case, tree, tag, built=built):
        return
    # the same node after its operands changed through the manager
    if case["dom"] != "euf" and case.get("in1", "leaf") == "leaf":
        ctx.r["a"] = ctx.D.fresh("a_new")
        if not check_tree(ex, ctx, case, tree, tag + " (after a changed)"):
            return
        # ... and the very same expression object, evaluated before, evaluated again
        if built is not None and not check_tree(ex, ctx, case, tree, tag + " (same expression object after a changed)", built=built):
            return
    # the callee of a call is an operand like any other: replaced through the ref or in the container,
    # the expression object evaluated before must call the new one
    if case["dom"] != "euf" and built is not None and _has_call(tree):
        newg = ctx.D.func("h", 2)
        if ex.choose(2):
            ctx.fr.g = newg
        else:
            ctx.fo.g = newg
        note(ex, "callee_replaced")
        if not check_tree(ex, ctx, case, tree, tag + " (same expression object after the callee was replaced)", built=built):
            return
    ex.notes["classes:" + ",".join(sorted(ctx.classes))] = 1
    if len(ex.samples) < 1:
        ex.samples.append({"case": tag, "dom": case["dom"], "tree": repr(tree)})


def run_inplace(ex, case):
    """r['a'] op= k : new content = op(old, k); _expr = old_expr op k or absent."""
    ctx = Ctx(ex, case)
    m, r, d, D = ctx.m, ctx.r, ctx.d, ctx.D
    opname = INPLACE[case["op"]]
    f = BIN[opname]
    tag = f"inplace:{case['op']}:{case['old']}:{case['k']}"
    if case["dom"] == "pool":
        d.update(a=6, b=3, c=5)
        kval = 3 if case["k"] == "lit" else None
    else:
        kval = ctx.lit("q") if case["k"] == "lit" else None
    if case.get("ctx") == "ckey":
        # another definition whose target path holds r['a'] as a computed key: r['a'] is then one of
        # that task's targets without being defined by it
        sink = Sink(ctx.cont)
        try:
            m.ref(sink, "sink")[r["a"]] = r["c"] * 7
        except (Abort, Inconclusive):
            raise
        except Exception as e:
            ex.fail(f"{tag}: defining sink[r['a']] raised {type(e).__name__}: {e}")
            return
        note(ex, "inplace_with_foreign_target")
        tag += ":ckey-context"
    if case["old"] == "expr":
        r["a"] = r["c"] * 2 if case["dom"] != "pool" else r["c"] + 1
    old_direct = (lambda: d["c"] * 2 if case["dom"] != "pool" else d["c"] + 1) if case["old"] == "expr" else None
    old_val = d["a"]
    K = kval if case["k"] == "lit" else r["b"]
    kd = (lambda: kval) if case["k"] == "lit" else (lambda: d["b"])
    env = {"r": r, "K": K}
    deferred = case["old"] == "expr" or case["k"] == "ref"

    def fo(x, y):
        # when an expression is (or becomes) registered the division is deferred: NaN on zero
        if deferred and opname in DIVOPS:
            try:
                return f(x, y)
            except ZeroDivisionError:
                return float("nan")
        return f(x, y)
    exp0 = outcome(lambda: fo(old_direct() if old_direct else old_val, kd()))
    got0 = outcome(lambda: exec(f"r['a'] {INPLACE_SYM[case['op']]} K", env))
    note(ex, "inplace_checked")
    if exp0[0] == "raise" or got0[0] == "raise":
        if (got0[0], got0[1] if got0[0] == "raise" else None) != (exp0[0], exp0[1] if exp0[0] == "raise" else None):
            ex.fail(f"{tag}: Python gives {exp0}, in-place through the ref gives {got0} / {d['a']!r}")
        return
    if not _prove_same(ex, case, d["a"], exp0[1], f"{tag}: content after in-place != op(old, k)"):
        return
    e = r["a"]._expr
    if case["old"] == "value" and case["k"] == "lit":
        if e is not None:
            ex.fail(f"{tag}: plain value op= literal must not register an expression, got {e}")
        return
    if e is None:
        ex.fail(f"{tag}: expected an expression (old expression or ref operand), got none")
        return
    deps = {str(x) for x in e._get_dependencies()}
    want = set()
    if case["old"] == "expr":
        want.add("d['c']")
    if case["k"] == "ref":
        want.add("d['b']")
    if deps != want:
        ex.fail(f"{tag}: new expression {e} depends on {sorted(deps)}, expected {sorted(want)}")
        return
    # operands change afterwards -> location follows op(old_expr, k)
    if case["dom"] != "pool":
        for loc in sorted(want):
            key = loc[3]
            nv = D.fresh(key + "_new")
            got1 = outcome(lambda: r.__setitem__(key, nv))
            base = old_direct() if old_direct else old_val
            exp1 = outcome(lambda: fo(base, kd()))
            if exp1[0] == "raise" or got1[0] == "raise":
                if (got1[0], got1[1] if got1[0] == "raise" else None) != (exp1[0], exp1[1] if exp1[0] == "raise" else None):
                    ex.fail(f"{tag}: after {loc} changed Python gives {exp1}, the assignment gives {got1}")
                return
            if not _prove_same(ex, case, d["a"], exp1[1], f"{tag}: after {loc} changed, content != op(old, k)"):
                return
    if len(ex.samples) < 1:
        ex.samples.append({"case": tag, "dom": case["dom"]})


def _prove_same(ex, case, got, exp, what):
    if is_nan(got) or is_nan(exp):
        if is_nan(got) and is_nan(exp):
            note(ex, "zero_division_nan")
            return True
        ex.fail(what + f" (NaN mismatch: {got!r} vs {exp!r})")
        return False
    cond = same(got, exp)
    if case["dom"] == "euf":
        r = ex._check("q_assert", z3.Not(cond))
        if r == z3.unsat:
            note(ex, "euf_valid")
            ex.stats.proved += 1
            return True
        raise Inconclusive(f"EUF cannot prove {what}: {got!r} vs {exp!r}")
    return ex.prove(cond, what=what, detail={"got": repr(got), "expected": repr(exp)})


def run_meta(ex, case):
    """Introspection: every protocol method has a case; no unknown dunder."""
    xd = get_xdeps(case["build"])
    found = discover(xd)
    if found["unknown"]:
        ex.fail(f"operator-like methods without a harness case: {sorted(found['unknown'])}")
    missing = set(INPLACE) - found["inplace"]
    note(ex, "meta")
    ex.notes["discovered_methods"] = sum(len(v) for k, v in found.items() if k != "unknown")
    # every concrete node class must be produced by some case (collected in notes by the driver)


def run_case(ex, case):
    if case["kind"] == "meta":
        return run_meta(ex, case)
    if case["kind"] == "inplace":
        return run_inplace(ex, case)
    return run_expr(ex, case)


def cases(tier):
    xd = get_xdeps("pure")
    found = discover(xd)
    builds = ["pure"] if tier == "quick" else ["pure", "compiled"]
    doms = ["euf", "int", "real", "pool"]
    out = []
    for b in builds:
        out.append({"kind": "meta", "build": b, "dom": "-"})
        for dom in doms:
            for op in sorted(found["bin"]):
                for cfg in ("rr", "rl"):
                    out.append({"kind": "bin", "op": op, "cfg": cfg, "dom": dom, "build": b})
            for op in sorted(found["rbin"]):
                out.append({"kind": "bin", "op": op, "cfg": "lr", "dom": dom, "build": b})
            for op in sorted(found["un"]):
                out.append({"kind": "un", "op": op, "dom": dom, "build": b})
            for cfg in ("rl", "rr"):
                out.append({"kind": "round2", "cfg": cfg, "dom": dom, "build": b})
                out.append({"kind": "call", "cfg": cfg, "dom": dom, "build": b})
                for mth in ("_eq", "_neq"):
                    out.append({"kind": "meth", "op": mth, "cfg": cfg, "dom": dom, "build": b})
            # depth 2: every operator over every inner shape (first operand), a few for the second
            if True:
                for op in sorted(found["bin"]):
                    for in1 in INNER[1:]:
                        out.append({"kind": "bin", "op": op, "cfg": "rr", "in1": in1, "in2": "leaf", "dom": dom, "build": b})
                    for in2 in INNER[1:]:
                        out.append({"kind": "bin", "op": op, "cfg": "rr", "in1": "leaf", "in2": in2, "dom": dom, "build": b})
                    out.append({"kind": "bin", "op": op, "cfg": "lr", "in1": "mul_lit", "dom": dom, "build": b})
                for op in sorted(found["un"]):
                    for in1 in INNER[1:]:
                        out.append({"kind": "un", "op": op, "in1": in1, "dom": dom, "build": b})
            for op in sorted(INPLACE):
                for old in ("value", "expr"):
                    for k in ("lit", "ref"):
                        out.append({"kind": "inplace", "op": op, "old": old, "k": k, "dom": dom, "build": b})
                        out.append({"kind": "inplace", "op": op, "old": old, "k": k, "dom": dom, "build": b, "ctx": "ckey"})
            if dom != "pool":
                # both operands nested at once
                for op in ("add", "truediv", "pow", "lt", "mod", "floordiv"):
                    for in1 in INNER[1:]:
                        for in2 in INNER[1:]:
                            out.append({"kind": "bin", "op": op, "cfg": "rr", "in1": in1, "in2": in2, "dom": dom, "build": b})
            if dom != "pool":
                red = ["add", "sub", "truediv", "neg", "abs", "pow", "lt"] if tier == "thorough" else ["add", "truediv", "neg", "abs", "pow"]
                for o1 in red:
                    for o2 in red:
                        for o3 in red:
                            out.append({"kind": "spine", "ops": [o1, o2, o3], "dom": dom, "build": b})
    return out


def main(tier, seed, replay, procs):
    """Driver + the class-coverage obligation (every node class instantiated)."""
    from symx import driver
    import importlib
    import time
    import multiprocessing as mp
    mod = importlib.import_module("checks.c04")
    if replay:
        return driver.do_replay(mod, ID, replay)
    t0 = time.time()
    cs = cases(tier)
    jobs = [("checks.c04", c, i, i < PROFILE_CASES) for i, c in enumerate(cs)]
    ctx = mp.get_context("fork")
    with ctx.Pool(min(16, procs or 16), maxtasksperchild=TASKS_PER_CHILD) as pool:
        results = list(pool.imap_unordered(driver._run_case, jobs, chunksize=8))
    seen = set()
    for r in results:
        for k in list(r["notes"]):
            if k.startswith("classes:"):
                seen |= set(k[8:].split(","))
                del r["notes"][k]
    xd = get_xdeps("pure")
    want = set(node_classes(xd)) - {"ObjectAttrRef", "LiteralExpr", "Ref", "CompactFormatter"}
    errs = []
    if not want <= seen:
        errs.append(f"node classes never instantiated by any case (unharnessed): {sorted(want - seen)}")
    return driver.finish(mod, ID, tier, seed, results, time.time() - t0,
                         extra_cov={"node_classes_covered": sorted(seen & want), "cases_total": len(cs)},
                         extra_errors=errs)

"""C02 - one assignment runs exactly the downstream tasks, once each, in order.

(b) Manager level (the solver-relevant part): task graphs of <= 4 tasks
(ExprTask / FunctionTask / LinearKnob; chains, diamonds, fan-in/out, shared
sub-expressions, nested targets, independent pairs, cycles), every registration
order, every assigned location, and EVERY iteration order of find_taskids' start
set (NDSet: superset of all hash seeds) are engine decisions.  Executions are
observed without hooks: logging containers record every write, FunctionTask
actions bump symbolic counters.  Per path:
  * the tasks that ran == the downstream closure computed by the harness from the
    public taskid/targets/dependencies (start: tasks reading the assigned ref or a
    container enclosing it; edge A->B iff A.targets & B.dependencies);
  * each ran exactly once (write log; z3: cnt' == cnt + 1 for all counters);
  * acyclic ordering graph: no task ran before a triggered producer of its inputs,
    and every expression target equals its definition on the final contents (z3);
  * cyclic graph: terminates, at most once each.
(a) Kernel: sorting.toposort on all graphs of N nodes with every neighbour order
and start order - exhaustive small-scope exploration driven by the engine (no
solver verdict is involved; stated as such).
"""
import itertools

import z3

from symx.driver import get_xdeps
from symx.values import eq
from symx.core import Abort, Inconclusive
from . import universe as U
from . import c01

ID = "C02"
LEVEL = "model_checking"
FUNCTIONS = [
    "tasks.py:Manager.set_value", "tasks.py:Manager.find_taskids", "tasks.py:Manager.find_tasks",
    "tasks.py:Manager.run_tasks", "tasks.py:Manager.register", "sorting.py:toposort", "sorting.py:_dfs",
    "tasks.py:ExprTask.run", "tasks.py:FunctionTask.run", "tasks.py:LinearKnob.run",
]
ASSUMPTIONS = [
    "expected downstream set and order are derived from the public taskid/targets/dependencies of the registered tasks (the library's own notion of dependency, including owner-chain structural dependencies)",
    "tasks.py is loaded through an AST pass that makes find_taskids' start set an NDSet (all iteration orders); nothing else is instrumented",
    "contents and counters are Python ints (z3 Int); FunctionTask actions write an uninterpreted function of their dependency values",
    "kernel (a): graphs, neighbour orders and start orders are enumerated as engine decisions; this part is exhaustive exploration, not a solver verdict",
]
BOUNDS = {
    "quick": "(b) 10 graph shapes x task kinds {E,F,K} per node (<=4 tasks) x all registration orders x {no history, one task unregistered, one task re-bound to another input; for 3 shapes also: one task registered only after that edit} x 6 assigned locations x all start-set orders; the observed location may have been assigned before (before any registration, followed by verify(); or with the tasks in place, before the graph edit, verify() after it); "
             "(a) toposort on all digraphs with N<=3 nodes, all neighbour orders, all ordered start subsets",
    "thorough": "(b) same on both builds plus 2 five-task shapes; (a) N=4 with label-order neighbours and all start subsets",
}
OUTSIDE = "more than 5 tasks; register-time iteration order of dependency sets (covered through 'all registration orders' only)"
REQUIRED_CLASSES = ["update_checked", "order_checked", "cyclic_checked", "idle_checked", "kernel", "late_registration",
                    "assigned_before_registration", "assigned_before_graph_edit"]
PROFILE_CASES = 4
TASKS_PER_CHILD = 40
LOCS = ["a", "b", "c", "n.x", "l0", "l1"]

# shapes: list of (target, [deps]); nodes are registered in every order
SHAPES = {
    "chain": [("b", ["a"]), ("c", ["b"]), ("n.x", ["c"])],
    "diamond": [("b", ["a"]), ("c", ["a"]), ("l0", ["b", "c"])],
    "fan_in": [("c", ["a", "b"]), ("n.x", ["c", "l0"])],
    "fan_out": [("b", ["a"]), ("c", ["a"]), ("n.x", ["a"]), ("l0", ["a"])],
    "shared": [("c", ["a", "b"]), ("l0", ["a", "b"]), ("n.x", ["c", "l0"])],
    "nested": [("n.x", ["a"]), ("l0", ["n.x"]), ("b", ["l0"])],
    "independent": [("b", ["a"]), ("l0", ["c"])],
    "cycle2": [("b", ["a"]), ("a", ["b"]), ("c", ["b"])],
    "list_siblings": [("l0", ["a"]), ("b", ["l1"])],
    # two writers of different members of one container and a reader of a third member (depends on the container)
    "sibling_writers": [("n.x", ["a"]), ("n.y", ["b"]), ("c", ["n.z"])],
}
SHAPES5 = {
    "ladder": [("b", ["a"]), ("c", ["a"]), ("n.x", ["b", "c"]), ("l0", ["n.x"]), ("l1", ["n.x", "b"])],
    "chain5": [("b", ["a"]), ("c", ["b"]), ("n.x", ["c"]), ("l0", ["n.x"]), ("l1", ["l0"])],
}


class Log:
    def __init__(self):
        self.w = []


class LDict(dict):
    log = None

    def __setitem__(self, k, v):
        self.log.w.append(k if k in ("a", "b", "c") else f"<{k}>")
        dict.__setitem__(self, k, v)


class LObj:
    def __init__(self, log, **kw):
        object.__setattr__(self, "_log", log)
        for k, v in kw.items():
            object.__setattr__(self, k, v)

    def __setattr__(self, k, v):
        self._log.w.append(f"n.{k}")
        object.__setattr__(self, k, v)


class LList(list):
    log = None

    def __setitem__(self, k, v):
        self.log.w.append(f"l{k}")
        list.__setitem__(self, k, v)


def note(ex, k, n=1):
    ex.notes[k] = ex.notes.get(k, 0) + n


def run_manager(ex, case):
    xd = get_xdeps(case["build"], "start_set_only" if case["build"] == "pure" else None)
    shape = (SHAPES.get(case["shape"]) or SHAPES5[case["shape"]])
    kinds = case["kinds"]
    log = Log()
    vals = {L: ex.int(f"i_{L}") for L in U.ALL_LOCS}
    d = LDict()
    d.log = log
    ll = LList([vals["l0"], vals["l1"]])
    ll.log = log
    dict.update(d, {"a": vals["a"], "b": vals["b"], "c": vals["c"],
                    "n": LObj(log, x=vals["n.x"], y=vals["n.y"], z=vals["n.z"]), "l": ll,
                    "__K": {-1: vals["K-1"], -2: vals["K-2"]}})
    m = xd.Manager()
    r = m.ref(d, "d")
    g = ex.func("g", 2)
    fr = m.ref(U.FContainer(g), "f")
    cnt = [ex.int(f"cnt{i}") for i in range(len(shape))]
    cnt0 = list(cnt)
    trace = []
    tasks = []       # (kind, target, deps, dsc, task object)
    ufs = [ex.func(f"act{i}", 2) for i in range(len(shape))]
    wts = [ex.int(f"w{i}") for i in range(len(shape))]
    # registration order is a decision
    order = list(range(len(shape)))
    perm = next(itertools.islice(itertools.permutations(order), ex.choose(_fact(len(order))), None))
    defs = {}
    objs = {}
    # optionally one task is registered only after the graph edit below (graph edits consult the indices)
    late = ex.choose(len(shape)) if case.get("late") else None

    def make(i):
        t, deps = shape[i]
        kind = kinds[i]
        tref = U.getref(r, t)
        drefs = [U.getref(r, p) for p in deps]
        if kind == "K" and len(deps) != 1:
            kind = "E"
        if kind == "E":
            dsc = ("mul", ("loc", deps[0]), ("const", 2)) if len(deps) == 1 else ("add", ("loc", deps[0]), ("loc", deps[1]))
            task = xd.tasks.ExprTask(tref, U.build(dsc, r, fr))
            defs[t] = dsc
        elif kind == "F":
            def action(i=i, t=t, deps=deps):
                cnt[i] = cnt[i] + 1
                trace.append(i)
                a0 = U.getval(d, deps[0])
                a1 = U.getval(d, deps[1]) if len(deps) > 1 else 0
                U.setraw(d, t, ufs[i](a0, a1))
            task = xd.tasks.FunctionTask(f"F{i}", action, set(tref._get_dependencies()), set().union(*[p._get_dependencies() for p in drefs]))
        else:
            task = xd.tasks.LinearKnob(f"K{i}", drefs[0], [wts[i]], [tref])
            task.targets = list(task.targets)
        m.register(task)
        objs[i] = (kind, t, deps, task)

    warm = case.get("warm")
    L = case["loc"]
    if warm == "pre":
        # the location is assigned while nothing reads it yet, and the consistency check (which also
        # drops empty index entries) is called before the tasks are registered
        try:
            U.assign(r, L, ex.int("v_warm"))
            m.verify()
        except (Abort, Inconclusive):
            raise
        except Exception as e:
            ex.fail(f"assignment / verify() before any registration raised {type(e).__name__}: {e}")
            return
        note(ex, "assigned_before_registration")
    for i in perm:
        if i != late:
            make(i)
    if warm == "post":
        # the same location was already assigned once with the tasks in place (before the graph edit)
        if any(objs[i][0] == "E" and objs[i][1] == L for i in objs):
            return
        try:
            U.assign(r, L, ex.int("v_warm"))
        except (Abort, Inconclusive):
            raise
        except Exception as e:
            ex.fail(f"first assignment to {L} raised {type(e).__name__}: {e}")
            return
        note(ex, "assigned_before_graph_edit")
    # optional history before the observed assignment: one task is removed or re-bound
    pm = case.get("premut")
    if pm is not None:
        i = ex.choose(len(shape))
        if i == late:
            return
        kind, t, deps, task = objs[i]
        try:
            m.unregister(task.taskid)
        except (Abort, Inconclusive):
            raise
        except Exception as e:
            ex.fail(f"unregister of task #{i} raised {type(e).__name__}: {e}")
            return
        del objs[i]
        defs.pop(t, None)
        if pm == "rebind":
            free = [x for x in LOCS if x != t and x not in deps]
            nd = free[ex.choose(len(free))]
            tref = U.getref(r, t)
            dsc = ("mul", ("loc", nd), ("const", 2))
            nd_defs = dict(defs)
            nd_defs[t] = dsc
            if kind == "E":
                task2 = xd.tasks.ExprTask(tref, U.build(dsc, r, fr))
                defs[t] = dsc
            else:
                def action2(i=i, t=t, nd=nd):
                    cnt[i] = cnt[i] + 1
                    trace.append(i)
                    U.setraw(d, t, ufs[i](U.getval(d, nd), 0))
                task2 = xd.tasks.FunctionTask(f"F{i}b", action2, set(tref._get_dependencies()), set(U.getref(r, nd)._get_dependencies()))
                kind = "F"
            m.register(task2)
            objs[i] = (kind, t, [nd], task2)
    if late is not None:
        make(late)
        note(ex, "late_registration")
    if warm == "post":
        try:
            m.verify()
        except (Abort, Inconclusive):
            raise
        except Exception as e:
            ex.fail(f"verify() after the graph edit raised {type(e).__name__}: {e}")
            return
    # the assignment under observation
    cnt0 = list(cnt)
    aref = U.getref(r, L)
    if L in [s[0] for s in shape]:
        # assigning to a task's target through set_value replaces an ExprTask: only for undefined here
        if any(objs[i][0] == "E" and objs[i][1] == L for i in objs):
            return
    v = ex.int("v_new")
    # expected set from the public attributes
    pub = {}
    for i, (kind, t, deps, task) in objs.items():
        pub[i] = ({str(x) for x in task.targets}, {str(x) for x in task.dependencies})
    chain = {str(x) for x in aref._get_dependencies()}
    start = {i for i in pub if pub[i][1] & chain}
    edges = {i: {j for j in pub if pub[i][0] & pub[j][1]} for i in pub}
    reach = set()
    todo = list(start)
    while todo:
        i = todo.pop()
        if i not in reach:
            reach.add(i)
            todo.extend(edges[i])
    sub = {i: edges[i] & reach for i in reach}
    cyclic = _has_cycle(sub)
    log.w.clear()
    trace.clear()
    try:
        U.assign(r, L, v)
    except (Abort, Inconclusive):
        raise
    except Exception as e:
        ex.fail(f"assignment to {L} raised {type(e).__name__}: {e}", {"case": case})
        return
    note(ex, "update_checked")
    writes = list(log.w)
    det = {"shape": case["shape"], "kinds": "".join(kinds), "registration_order": list(perm), "assigned": L, "premut": pm,
           "writes": writes, "expected_tasks": sorted(reach)}
    if not writes or writes[0] != L:
        ex.fail(f"first write of the update is {writes[:1]}, expected the assigned location {L}", det)
        return
    ran = []          # task indices in execution order
    tgt_of = {}
    for i, (kind, t, deps, task) in objs.items():
        tgt_of.setdefault(t, []).append(i)
    for wloc in writes[1:]:
        cands = tgt_of.get(wloc, [])
        if not cands:
            ex.fail(f"unexpected write to {wloc} during the update", det)
            return
        ran.append(cands[0] if len(cands) == 1 else cands[0])
    det["ran"] = ran
    # exactly the downstream set, once each (at most once when cyclic)
    counts = {i: ran.count(i) for i in objs}
    for i in objs:
        exp = 1 if i in reach else 0
        if i not in reach:
            note(ex, "idle_checked")
        if counts[i] > 1 or (counts[i] != exp and not (cyclic and exp == 1 and counts[i] <= 1)):
            ex.fail(f"task #{i} ({objs[i][0]} -> {objs[i][1]}) ran {counts[i]} time(s), expected {exp}", det)
            return
        if counts[i] != exp:
            ex.fail(f"task #{i} ({objs[i][0]} -> {objs[i][1]}) ran {counts[i]} time(s), expected {exp}", det)
            return
        if objs[i][0] == "F":
            if not ex.prove(eq(cnt[i], cnt0[i] + exp), f"FunctionTask #{i} action count != {exp}", det):
                return
    if cyclic:
        note(ex, "cyclic_checked")
        return
    note(ex, "order_checked")
    pos = {i: k for k, i in enumerate(ran)}
    for i in reach:
        for j in sub[i]:
            if i != j and pos[i] > pos[j]:
                ex.fail(f"task #{j} ({objs[j][1]}) ran before task #{i} ({objs[i][1]}) which produces one of its inputs", det)
                return
    # values: expression targets equal their definition on the final contents
    for t, dsc in defs.items():
        if not ex.prove(eq(U.getval(d, t), U.ev(dsc, d, g)) if any(objs[i][1] == t and i in reach for i in objs) else True,
                        f"expression target {t} is stale w.r.t. the final contents (ran before an input was updated)", det):
            return
    if len(ex.samples) < 2:
        ex.samples.append(det)


def _fact(n):
    r = 1
    for i in range(2, n + 1):
        r *= i
    return r


def _has_cycle(g):
    state = {}

    def go(u):
        if state.get(u) == 1:
            return True
        if state.get(u) == 2:
            return False
        state[u] = 1
        r = any(go(v) for v in g[u])
        state[u] = 2
        return r
    return any(go(u) for u in g)


def run_kernel(ex, case):
    """sorting.toposort on every digraph of N nodes."""
    xd = get_xdeps(case["build"])
    toposort = xd.sorting.toposort
    N = case["N"]
    bits = case["bits"]
    adj = {u: [v for v in range(N) if bits[u * N + v]] for u in range(N)}
    # neighbour order: all permutations (N<=3) or label order
    graph = {}
    for u in range(N):
        ns = adj[u]
        if case["all_orders"] and len(ns) > 1:
            ns = list(next(itertools.islice(itertools.permutations(ns), ex.choose(_fact(len(ns))), None)))
        if ns or ex.choose(2):          # key may be absent or present-and-empty
            graph[u] = ns
    # start: ordered subset
    k = ex.choose(N + 1)
    subs = list(itertools.permutations(range(N), k))
    start = list(subs[ex.choose(len(subs))])
    note(ex, "kernel")
    out = toposort(graph, start)
    det = {"graph": graph, "start": start, "out": out}
    reach = set()
    todo = list(start)
    while todo:
        u = todo.pop()
        if u not in reach:
            reach.add(u)
            todo.extend(adj[u])
    if len(out) != len(set(out)):
        ex.fail("toposort output has duplicates", det)
        return
    if set(out) != reach:
        ex.fail("toposort output != nodes reachable from start", det)
        return
    sub = {u: [v for v in adj[u]] for u in reach}
    if not _has_cycle(sub):
        pos = {u: i for i, u in enumerate(out)}
        for u in reach:
            for v in adj[u]:
                if pos[u] > pos[v]:
                    ex.fail(f"edge {u}->{v} violated in toposort output", det)
                    return


def run_case(ex, case):
    if case["mode"] == "kernel":
        return run_kernel(ex, case)
    return run_manager(ex, case)


def cases(tier):
    out = []
    builds = ["pure"] if tier == "quick" else ["pure", "compiled"]
    for b in builds:
        shapes = dict(SHAPES)
        if tier != "quick":
            shapes.update(SHAPES5)
        for name, shape in shapes.items():
            n = len(shape)
            kindsets = itertools.product("EFK", repeat=n)
            for kinds in kindsets:
                # K needs a single dependency; E on cyclic shapes is allowed
                if any(k == "K" and len(shape[i][1]) != 1 for i, k in enumerate(kinds)):
                    continue
                if n >= 4 and tier == "quick" and kinds.count("E") + kinds.count("F") < n and kinds.count("K") > 1:
                    continue
                if n >= 5 and kinds.count("K") > 0:
                    continue
                for L in LOCS:
                    out.append({"mode": "manager", "build": b, "shape": name, "kinds": list(kinds), "loc": L})
                    if n <= 3 or tier != "quick":
                        out.append({"mode": "manager", "build": b, "shape": name, "kinds": list(kinds), "loc": L, "warm": "pre"})
                    if "K" not in kinds and (tier != "quick" or n <= 3):
                        for pm in ("unreg", "rebind"):
                            out.append({"mode": "manager", "build": b, "shape": name, "kinds": list(kinds), "loc": L, "premut": pm})
                            out.append({"mode": "manager", "build": b, "shape": name, "kinds": list(kinds), "loc": L, "premut": pm, "warm": "post"})
                            if n == 3 and (tier != "quick" or name in ("sibling_writers", "nested", "chain")):
                                out.append({"mode": "manager", "build": b, "shape": name, "kinds": list(kinds), "loc": L, "premut": pm, "late": True})
        # kernel
        for N in (1, 2, 3):
            for bits in itertools.product([0, 1], repeat=N * N):
                out.append({"mode": "kernel", "build": b, "N": N, "bits": list(bits), "all_orders": True})
        if tier != "quick":
            for bits in itertools.product([0, 1], repeat=16):
                out.append({"mode": "kernel", "build": b, "N": 4, "bits": list(bits), "all_orders": False})
    return out

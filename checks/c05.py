"""C05 - reported dependencies contain every location an expression reads.

For every node class of refs.py (found by introspection) and every operand slot,
a probe location is placed in the slot (directly and one level down) and the real
`_get_dependencies` is compared with
  (exact)  the set of locations occurring in the tree, derived by the harness
           from its own tree descriptor;
  (sound)  a solver-decided non-interference query: for every location L of the
           universe that is NOT reported, evaluating the real expression before
           and after L changes gives equal values for all contents (z3); a
           counterexample is a location the expression reads but does not report;
  (e2e)    t = e registered through the manager, each location read by e is then
           assigned a fresh symbolic value through its reference and z3 proves
           contents[t] == direct evaluation.
The universe contains the colliding keys -1 and -2 (hash(-1) == hash(-2) in
CPython) so that structurally identical operands differing only by such keys are
exercised.
"""
import math
import operator

import z3

from symx.driver import get_xdeps
from symx.core import Abort, Inconclusive
from symx.values import SymInt, eq, tobool

ID = "C05"
LEVEL = "model_checking"
FUNCTIONS = [
    "refs.py:MutableRef._get_dependencies", "refs.py:Ref._get_dependencies", "refs.py:BinOpExpr._get_dependencies",
    "refs.py:UnaryOpExpr._get_dependencies", "refs.py:BuiltinRef._get_dependencies", "refs.py:CallRef._get_dependencies",
    "refs.py:BaseRef._get_dependencies", "tasks.py:ExprTask.__init__", "tasks.py:Manager.set_value",
    "tasks.py:Manager.register",
]
ASSUMPTIONS = [
    "contents are Python ints (z3 Int); user function = uninterpreted function; keys/attribute names concrete",
    "a location is identified by its printed access path; two different paths to the same cell (d['v'][3] and d['v'][-1]) are different locations (aliasing excluded)",
    "non-interference is evaluated through the real _get_value of the expression under test",
]
BOUNDS = {
    "quick": "every BaseRef node class x operand slot x {direct, one level down} x 4 probe/filler pairs incl. the hash-colliding keys (-1,-2); universe of 9 locations; values unbounded",
    "thorough": "same on both builds plus two levels down and all ordered probe/filler pairs",
}
OUTSIDE = "expressions deeper than 3 levels (structural induction through the recursive _get_dependencies is argued, not proved)"
REQUIRED_CLASSES = ["exact", "noninterference", "e2e", "set_type", "container_expr"]
PROFILE_CASES = 30
TASKS_PER_CHILD = 500

BINOPS = {"+": operator.add, "-": operator.sub, "*": operator.mul, "@": operator.matmul, "/": operator.truediv,
          "//": operator.floordiv, "%": operator.mod, "**": operator.pow, "&": operator.and_, "|": operator.or_,
          "^": operator.xor, "<": operator.lt, "<=": operator.le, "==": None, "!=": None, ">=": operator.ge,
          ">": operator.gt, ">>": operator.rshift, "<<": operator.lshift}
UNOPS = {"-": operator.neg, "+": operator.pos, "~": operator.invert}
LOCS = ["a", "b", "c", "k", "ox", "v0", "v1", "v-1", "v-2", "w0", "w1", "V0", "V-1", "V-2"]
PAIRS = [("a", "b"), ("V-1", "V-2"), ("V-2", "V-1"), ("ox", "v0"), ("v-1", "v-2")]


class Obj:
    pass


def locname(L):
    if L in ("a", "b", "c", "k"):
        return {f"d['{L}']"}
    if L == "ox":
        return {"d['o']", "d['o'].x"}
    if L.startswith("v"):
        return {"d['v']", f"d['v'][{int(L[1:])}]"}
    if L.startswith("V"):
        return {f"V[{int(L[1:])}]"}
    if L.startswith("w"):
        return {"d['w']", f"d['w'][{int(L[1:])}]"}
    raise ValueError(L)


class World:
    def __init__(self, ex, build):
        self.ex = ex
        self.xd = get_xdeps(build)
        self.m = self.xd.Manager()
        o = Obj()
        o.x = ex.int("ox")
        self.d = {"a": ex.int("a"), "b": ex.int("b"), "c": ex.int("c"),
                  "k": ex.int("k", hashmode="conc", lo=0, hi=1), "o": o,
                  "v": [ex.int(f"v{i}") for i in range(4)], "w": [ex.int("w0"), ex.int("w1")], "t": 0}
        self.r = self.m.ref(self.d, "d")
        self.V = [ex.int(f"V{i}") for i in range(4)]
        self.rV = self.m.ref(self.V, "V")
        fo = Obj()
        fo.g = self._g
        fo.h = self._h
        self.fo = fo
        self.fd = {"g": self._g}
        self.fr = self.m.ref(fo, "f")
        self._gf = {}

    def _uf(self, name, args):
        key = (name, len(args))
        if key not in self._gf:
            self._gf[key] = self.ex.func(f"{name}{len(args)}", len(args))
        return self._gf[key](*args)

    def _g(self, *a, **k):
        return self._uf("g_" + "_".join(sorted(k)), list(a) + [k[n] for n in sorted(k)])

    def _h(self, *a, **k):
        return self._uf("h_" + "_".join(sorted(k)), list(a) + [k[n] for n in sorted(k)])

    def ref(self, L):
        r = self.r
        if L in ("a", "b", "c", "k"):
            return r[L]
        if L == "ox":
            return r["o"].x
        if L.startswith("v"):
            return r["v"][int(L[1:])]
        if L.startswith("V"):
            return self.rV[int(L[1:])]
        return r["w"][int(L[1:])]

    def get(self, L):
        d = self.d
        if L in ("a", "b", "c", "k"):
            return d[L]
        if L == "ox":
            return d["o"].x
        if L.startswith("v"):
            return d["v"][int(L[1:])]
        if L.startswith("V"):
            return self.V[int(L[1:])]
        return d["w"][int(L[1:])]

    def setraw(self, L, val):
        d = self.d
        if L in ("a", "b", "c", "k"):
            d[L] = val
        elif L == "ox":
            d["o"].x = val
        elif L.startswith("v"):
            d["v"][int(L[1:])] = val
        elif L.startswith("V"):
            self.V[int(L[1:])] = val
        else:
            d["w"][int(L[1:])] = val

    def assign(self, L, val):
        r = self.r
        if L in ("a", "b", "c", "k"):
            r[L] = val
        elif L == "ox":
            r["o"].x = val
        elif L.startswith("v"):
            r["v"][int(L[1:])] = val
        elif L.startswith("V"):
            self.rV[int(L[1:])] = val
        else:
            r["w"][int(L[1:])] = val

    # tree -> (deferred expr, direct thunk, set of location names occurring)
    def build(self, t):
        k = t[0]
        if k == "leaf":
            L = t[1]
            return self.ref(L), (lambda: self.get(L)), set(locname(L)), {L}
        if k == "lit":
            return t[1], (lambda: t[1]), set(), set()
        if k == "litexpr":
            # a constant wrapped as an expression node of its own
            return self.xd.refs.LiteralExpr(t[1]), (lambda: t[1]), set(), set()
        if k == "bin":
            cls, f = t[1], BINOPS[t[1]]
            e1, d1, n1, l1 = self.build(t[2])
            e2, d2, n2, l2 = self.build(t[3])
            R = self.xd.refs
            if t[1] == "==":
                return e1._eq(e2) if hasattr(e1, "_eq") else R.EqExpr(e1, e2), (lambda: d1() == d2()), n1 | n2, l1 | l2
            if t[1] == "!=":
                return e1._neq(e2) if hasattr(e1, "_neq") else R.NeExpr(e1, e2), (lambda: d1() != d2()), n1 | n2, l1 | l2

            def dd():
                x, y = d1(), d2()
                try:
                    return f(x, y)
                except ZeroDivisionError:
                    if t[1] in ("/", "//", "%"):
                        return float("nan")
                    raise
            return f(e1, e2), dd, n1 | n2, l1 | l2
        if k == "un":
            f = UNOPS[t[1]]
            e1, d1, n1, l1 = self.build(t[2])
            return f(e1), (lambda: f(d1())), n1, l1
        if k == "builtin":
            name = t[1]
            e1, d1, n1, l1 = self.build(t[2])
            if name in ("abs", "trunc", "floor", "ceil", "round"):
                f = {"abs": abs, "trunc": math.trunc, "floor": math.floor, "ceil": math.ceil, "round": round}[name]
                return f(e1), (lambda: f(d1())), n1, l1
            e2, d2, n2, l2 = self.build(t[3])
            f = {"round2": round, "divmod": divmod}[name]
            return f(e1, e2), (lambda: f(d1(), d2())), n1 | n2, l1 | l2
        if k == "call":
            # ('call', funckind, [args], [(kw, tree)])
            fk = t[1]
            es = [self.build(x) for x in t[2]]
            ks = [(n, self.build(x)) for n, x in t[3]]
            names, ls = set(), set()
            for e in es:
                names |= e[2]
                ls |= e[3]
            for _, e in ks:
                names |= e[2]
                ls |= e[3]
            if fk == "attr":
                fe, ff = self.fr.g, self._g
                names |= {"f.g"}
            elif fk == "other":
                fe, ff = self.fr.h, self._h
                names |= {"f.h"}
            else:
                raise ValueError(fk)
            return (fe(*[e[0] for e in es], **{n: e[0] for n, e in ks}),
                    (lambda: ff(*[e[1]() for e in es], **{n: e[1]() for n, e in ks})), names, ls)
        if k == "item_computed":
            # d['w'][ <key tree> ] : key is an expression whose value indexes the list
            ke, kd, kn, kl = self.build(t[1])
            e = self.r["w"][ke]
            return e, (lambda: self.d["w"][kd()]), kn | {"d['w']", str(e)}, kl | {"w0", "w1"}
        if k == "index0":
            e1, d1, n1, l1 = self.build(t[1])
            e = e1[0]
            return e, (lambda: d1()[0]), n1 | {str(e)}, l1
        raise ValueError(t)


def note(ex, k, n=1):
    ex.notes[k] = ex.notes.get(k, 0) + n


def outcome(f):
    try:
        return ("val", f())
    except (Abort, Inconclusive):
        raise
    except Exception as e:
        return ("raise", type(e).__name__)


def same_outcome(a, b):
    """z3 Bool / python bool: two outcomes agree."""
    if a[0] != b[0]:
        return False
    if a[0] == "raise":
        return a[1] == b[1]
    return _same(a[1], b[1])


def _same(x, y):
    if isinstance(x, tuple) and isinstance(y, tuple) and len(x) == len(y):
        r = True
        out = []
        for p, q in zip(x, y):
            out.append(tobool(_same(p, q)))
        return z3.And(*out) if out else True
    if isinstance(x, float) and x != x and isinstance(y, float) and y != y:
        return True
    return eq(x, y)


def tup(x):
    return tuple(tup(i) for i in x) if isinstance(x, (list, tuple)) else x


def run_case(ex, case):
    w = World(ex, case["build"])
    tree = tup(case["tree"])
    if case.get("kind") == "container":
        return run_container(ex, w, case)
    try:
        e, direct, names, leaves = w.build(tree)
    except TypeError:
        note(ex, "not_constructible")
        return
    deps = e._get_dependencies()
    note(ex, "set_type")
    if not isinstance(deps, set):
        ex.fail(f"{case['tag']}: _get_dependencies() returned {type(deps).__name__}, not a set")
        return
    got = {str(x) for x in deps}
    note(ex, "exact")
    if got != names:
        ex.fail(f"{case['tag']}: reported {sorted(got)} but the expression {e} contains {sorted(names)}",
                {"missing": sorted(names - got), "extra": sorted(got - names)})
        return
    # re-entrancy: parents call children with a shared, possibly pre-populated accumulator;
    # the answer must not depend on it nor on earlier queries / on being embedded elsewhere
    other = w.ref("c")
    acc = set(deps) | {other}
    r1 = e._get_dependencies(acc)
    if {str(x) for x in acc} != got | {str(other)}:
        ex.fail(f"{case['tag']}: _get_dependencies(out) with a pre-populated accumulator leaves {sorted(str(x) for x in acc)}", {"expected": sorted(got | {str(other)})})
        return
    acc2 = set()
    e._get_dependencies(acc2)
    try:
        bigger = w.ref("a") + e if not isinstance(e, type(w.r)) else None
        if bigger is not None:
            bigger._get_dependencies()
            (e + w.ref("a"))._get_dependencies()
    except TypeError:
        pass
    again = {str(x) for x in e._get_dependencies()}
    if {str(x) for x in acc2} != got or again != got:
        ex.fail(f"{case['tag']}: repeated / embedded queries change the reported dependencies of {e}: first {sorted(got)}, "
                f"into an empty accumulator {sorted(str(x) for x in acc2)}, afterwards {sorted(again)}")
        return
    # soundness by non-interference, decided by z3 for all contents
    for L in LOCS:
        if locname(L) & got:
            # L or a container enclosing it is reported: assigning L through its
            # reference triggers the dependants of every enclosing container
            continue
        before = outcome(e._get_value)
        old = w.get(L)
        w.setraw(L, ex.int(f"pert_{L}", hashmode="conc", lo=0, hi=1) if L == "k" else ex.int(f"pert_{L}"))
        after = outcome(e._get_value)
        w.setraw(L, old)
        note(ex, "noninterference")
        if not ex.prove(same_outcome(before, after),
                        f"{case['tag']}: value of {e} changes when unreported location {L} changes",
                        {"unreported": L, "reported": sorted(got)}):
            return
    # end to end: the registered task follows every location it reads
    exp0 = outcome(direct)
    g0 = outcome(lambda: w.r.__setitem__("t", e))
    if g0[0] == "raise" or exp0[0] == "raise":
        # evaluating the expression raises (e.g. @ on ints, 0 ** -1): both must
        if (g0[0] == "raise") != (exp0[0] == "raise") or (g0[0] == "raise" and g0[1] != exp0[1]):
            ex.fail(f"{case['tag']}: registering t = {e} gives {g0}, direct evaluation gives {exp0}")
        return
    for L in sorted(leaves):
        nv = ex.int(f"new_{L}", hashmode="conc", lo=0, hi=1) if L == "k" else ex.int(f"new_{L}")
        g = outcome(lambda: w.assign(L, nv))
        exp = outcome(direct)
        note(ex, "e2e")
        if exp[0] == "raise" or g[0] == "raise":
            if (g[0] == "raise") != (exp[0] == "raise"):
                ex.fail(f"{case['tag']}: after assigning {L}: update gives {g}, direct evaluation gives {exp}")
                return
            continue
        if not ex.prove(_same(w.d["t"], exp[1]), f"{case['tag']}: t = {e} is stale after {L} changed through its ref"):
            return
    if len(ex.samples) < 1:
        ex.samples.append({"case": case["tag"], "expr": str(e), "deps": sorted(got)})


def run_container(ex, w, case):
    """Expressions over a bare top-level container ref: always a set."""
    R = w.xd.refs
    note(ex, "container_expr")
    for mk in (lambda: -w.r, lambda: abs(w.r), lambda: w.r + 1, lambda: 1 + w.r, lambda: w.r(1), lambda: round(w.r, 2),
               lambda: w.fr.g(w.r), lambda: R.LiteralExpr(3), lambda: -R.LiteralExpr(3), lambda: w.r._get_dependencies() and w.r,
               lambda: w.r):
        e = mk()
        deps = e._get_dependencies() if hasattr(e, "_get_dependencies") else set()
        if not isinstance(deps, set):
            ex.fail(f"container expression {e}: _get_dependencies() returned {deps!r}, not a set")
            return
        if e is not w.r and not isinstance(e, R.LiteralExpr):
            extra = {str(x) for x in deps} - {"f.g"}
            if extra:
                ex.fail(f"container expression {e}: containers are not dependencies, got {sorted(extra)}")
                return
    note(ex, "set_type")


def slot_trees(P, Q, level):
    """(tag, tree) for every node class x slot, probe P in the slot, filler Q."""
    p = ("leaf", P)
    q = ("leaf", Q)
    for _ in range(level):
        p = ("un", "-", p)
    out = []
    for op in BINOPS:
        out.append((f"bin{op}:lhs", ("bin", op, p, q)))
        out.append((f"bin{op}:rhs", ("bin", op, q, p)))
        out.append((f"bin{op}:lhs-lit", ("bin", op, p, ("lit", 3))))
        if op not in ("==", "!="):
            out.append((f"bin{op}:rhs-lit", ("bin", op, ("lit", 3), p)))
    for op in UNOPS:
        out.append((f"un{op}", ("un", op, p)))
    for b in ("abs", "trunc", "floor", "ceil", "round"):
        out.append((f"builtin:{b}:arg", ("builtin", b, p)))
    for b in ("round2", "divmod"):
        out.append((f"builtin:{b}:arg", ("builtin", b, p, q)))
        out.append((f"builtin:{b}:param", ("builtin", b, q, p)))
        out.append((f"builtin:{b}:param-lit-arg", ("builtin", b, p, ("lit", 2))))
    out.append(("call:arg0", ("call", "attr", [p, q], [])))
    out.append(("call:arg1", ("call", "attr", [q, p], [])))
    out.append(("call:kwarg", ("call", "attr", [q], [("kw", p)])))
    out.append(("call:kwarg2", ("call", "other", [], [("x", q), ("y", p)])))
    out.append(("call:only-lit", ("call", "attr", [("lit", 1)], [("kw", p)])))
    out.append(("item:computed-key", ("item_computed", ("leaf", "k"))))
    out.append(("item:computed-key-expr", ("item_computed", ("bin", "*", ("leaf", "k"), ("lit", 1)))))
    out.append(("item:computed-key-neg", ("item_computed", ("un", "-", ("un", "-", ("leaf", "k"))))))
    out.append(("item:computed-key-abs", ("item_computed", ("builtin", "abs", ("leaf", "k")))))
    out.append(("item:computed-key-in-bin", ("bin", "+", ("item_computed", ("bin", "+", ("leaf", "k"), ("lit", 0))), p)))
    for wname, wrap in (("abs", lambda t: ("builtin", "abs", t)), ("round2", lambda t: ("builtin", "round2", t, ("lit", 1))),
                        ("call", lambda t: ("call", "attr", [t], [])), ("neg", lambda t: ("un", "-", t)),
                        ("divmod0", lambda t: ("index0", ("builtin", "divmod", t, ("lit", 3))))):
        out.append((f"bin+:first-operand-{wname}", ("bin", "+", wrap(p), q)))
        out.append((f"bin*:second-operand-{wname}", ("bin", "*", q, wrap(p))))
        out.append((f"call:arg-{wname}", ("call", "attr", [wrap(p), q], [])))
        out.append((f"builtin-param-{wname}", ("builtin", "round2", q, wrap(p))))
    # constants wrapped as LiteralExpr nodes, as either operand, below every kind of parent
    for lname, inner in (("litexpr-lhs", ("bin", "*", ("litexpr", 2), p)), ("litexpr-rhs", ("bin", "+", p, ("litexpr", 2))),
                         ("litexpr-neg", ("bin", "-", ("un", "-", ("litexpr", 2)), p))):
        out.append((f"{lname}:top", inner))
        out.append((f"{lname}:bin-rhs", ("bin", "+", ("lit", 1), inner)))
        out.append((f"{lname}:bin-lhs", ("bin", "+", inner, ("lit", 1))))
        out.append((f"{lname}:un", ("un", "-", inner)))
        out.append((f"{lname}:builtin-arg", ("builtin", "abs", inner)))
        out.append((f"{lname}:builtin-param", ("builtin", "round2", ("lit", 5), inner)))
        out.append((f"{lname}:call-arg", ("call", "attr", [inner], [])))
        out.append((f"{lname}:call-kwarg", ("call", "attr", [("lit", 1)], [("kw", inner)])))
        out.append((f"{lname}:computed-key", ("item_computed", ("bin", "%", ("builtin", "abs", inner), ("lit", 2)))))
    out.append(("item:over-builtin", ("index0", ("builtin", "divmod", p, q))))
    out.append(("item:over-builtin-param", ("index0", ("builtin", "divmod", q, p))))
    return out


def cases(tier):
    builds = ["pure"] if tier == "quick" else ["pure", "compiled"]
    pairs = PAIRS if tier == "quick" else PAIRS + [("b", "a"), ("v0", "v1"), ("v1", "v-1"), ("ox", "a"), ("w0", "w1")]
    levels = (0, 1) if tier == "quick" else (0, 1, 2)
    out = []
    for b in builds:
        out.append({"kind": "container", "build": b, "tree": [], "tag": "container"})
        for (P, Q) in pairs:
            for lv in levels:
                for tag, tree in slot_trees(P, Q, lv):
                    out.append({"build": b, "tree": tree, "tag": f"{tag}[{P},{Q},depth{lv}]"})
    return out

"""C10 - accepted optimizer iterates respect limits, max_step and disabled knobs.

Same symbolic harness as C09 (real Optimize/JacobianSolver code, any merit
function, any Newton step) plus max_step per knob (z3 Real > 0) and
enable/disable, persistent or through step()'s one-call arguments.
Assertions (z3, for all values), for every row of the log and the container:
  * lo_i <= k_i <= hi_i;
  * between consecutive rows produced by a Jacobian step |dk_i| <= max_step_i
    (unit weights);
  * a disabled knob equals its value before the call in every row written during
    the call, and no write with a different value reaches its container slot
    (write log);
  * a disabled target has no influence: the matrix and right-hand side handed to
    the least-squares solver, the penalties and the knob rows do not depend on its
    function (checked by substituting a fresh function and proving equality);
  * step(disable_*/enable_*=...) restores the flags afterwards.
Kernel (no exploration): _clip_to_max_steps on a symbolic step vector.
Multi-call scenarios: step(); disable; change the knob by hand / reload; step().
"""
import numpy as np
import z3

from symx.values import eq, tobool, SymReal, lift_real
from symx.core import Abort, Inconclusive
from . import optcommon as OC
from . import c09

ID = "C10"
LEVEL = "model_checking"
FUNCTIONS = c09.FUNCTIONS + ["optimize/optimize.py:Optimize.enable", "optimize/optimize.py:Optimize.disable",
                             "optimize/optimize.py:_set_state", "optimize/optimize.py:MeritFunctionForMatch.mask_input",
                             "optimize/optimize.py:MeritFunctionForMatch.mask_output"]
ASSUMPTIONS = OC.STUBS + [
    "start point inside the limits, tolerances > 0, max_step > 0",
    "max_step bound asserted for unit weights (the clip acts in weight-scaled space)",
    "weakening only the solver's own limit test is not a violation as long as the merit function's check_limits raises and solve() restores (the property is about accepted iterates)",
]
BOUNDS = {
    "quick": "flag kernel: 41 spellings of enable/disable (ids, tags, names, regular expressions, lists, True/False, the deprecated methods) on a 3x3 problem - concrete enumeration; persistent disabling also through the deprecated spellings (disable_vary(tag=), disable_all_targets()+enable_targets(id=)); a disabled target may carry rarely used options (optimize_log=True); kernel: _clip_to_max_steps for 2 and 3 knobs; solve()/step() with knobs x targets in {1x1, 2x1, 1x2}, one step, max_step on; one knob / one target disabled persistently or through "
             "step(disable_vary= / disable_vary_name= / disable_target= / enable_*=); scenario step(); disable(vary); <hand change | reload(0)>; step() on 2x1",
    "thorough": "adds 2x2, two steps, n_bisections=1, symbolic weights for the limit clause",
}
OUTSIDE = c09.OUTSIDE
REQUIRED_CLASSES = ["limits_checked", "max_step_checked", "disabled_knob_checked", "disabled_target_checked", "flags_restored", "kernel", "flag_spellings"]
REPLAY_REALS = ["fraction"]
PROFILE_CASES = 2
TASKS_PER_CHILD = 10
SPLIT = {"2x1": 10, "1x2": 8, "2x2": 12, "scen": 10}


def funcs_in(t, acc=None):
    acc = set() if acc is None else acc
    seen = set()
    todo = [t]
    while todo:
        x = todo.pop()
        if x.get_id() in seen:
            continue
        seen.add(x.get_id())
        if z3.is_app(x):
            d = x.decl()
            if d.kind() == z3.Z3_OP_UNINTERPRETED and x.num_args() > 0:
                acc.add(d.name())
            todo.extend(x.children())
    return acc


def independent_of(ex, terms, fdecl_name, P, what, det):
    """Every term is unchanged when the function is replaced by a fresh one."""
    f = ex.funcs.get(fdecl_name)
    if f is None:
        return True
    g = z3.Function(fdecl_name + "_other", *[f.domain(i) for i in range(f.arity())], f.range())
    for t in terms:
        t = z3.simplify(t)
        if fdecl_name not in funcs_in(t):
            ex.stats.proved += 1
            continue
        t2 = z3.substitute_funs(t, (f, g(*[z3.Var(i, f.domain(i)) for i in range(f.arity())])))
        if not ex.prove(t == t2, what, det):
            return False
    return True


def term(x):
    if isinstance(x, SymReal):
        return x.e
    return lift_real(x)


def check_rows(ex, P, opt, det, first_row, disabled_knobs, start_vals):
    log = opt._log
    nrows = len(log["knobs"])
    rows = list(log["knobs"]) + [P.knobs_now()]
    OC.note(ex, "limits_checked")
    for r, row in enumerate(rows):
        for i in range(P.NK):
            lo, hi = P.lims[i]
            if not ex.prove(tobool(lo <= row[i]) if True else None, f"row {r}: knob {i} below its lower limit", det):
                return False
            if not ex.prove(tobool(row[i] <= hi), f"row {r}: knob {i} above its upper limit", det):
                return False
    if P.case.get("max_step") and not P.case.get("weights"):
        for r in range(max(1, first_row), nrows):
            if log["alpha"][r] == -1:
                continue            # not a Jacobian-step row
            OC.note(ex, "max_step_checked")
            for i in range(P.NK):
                dk = log["knobs"][r][i] - log["knobs"][r - 1][i]
                ms = P.vary[i].max_step
                if not ex.prove(tobool(abs(dk) <= ms), f"Jacobian step to row {r}: knob {i} moved by more than its max_step", det):
                    return False
    for i in disabled_knobs:
        OC.note(ex, "disabled_knob_checked")
        for r in range(first_row, len(rows)):
            if not ex.prove(eq(rows[r][i], start_vals[i]), f"row {r}: disabled knob {i} changed", det):
                return False
        for (k, v) in P.d.log:
            if k == f"k{i}":
                if not ex.prove(eq(v, start_vals[i]), f"a write with a different value reached the container slot of disabled knob {i}", det):
                    return False
    return True


def run_kernel(ex, case):
    from symx.driver import get_xdeps
    xd = get_xdeps("pure")
    import xdeps.optimize.optimize as O
    O.np = OC.FACADE
    n = case["n"]
    d = {}
    vs = []
    for i in range(n):
        ms = ex.real(f"m{i}") if case["which"][i] else None
        if ms is not None:
            ex.assume(tobool(ms > 0))
        vs.append(O.Vary(f"k{i}", d, max_step=ms))
    mf = O.MeritFunctionForMatch(vs, [], [], False, 0, False, {}, [1e-10] * n, True)
    xs = np.array([ex.real(f"s{i}") for i in range(n)], dtype=object)
    out = mf._clip_to_max_steps(xs)
    OC.note(ex, "kernel")
    det = {"n": n, "which": case["which"]}
    for i in range(n):
        if vs[i].max_step is not None:
            if not ex.prove(tobool(abs(out[i]) <= vs[i].max_step), f"_clip_to_max_steps: |step[{i}]| > max_step[{i}]", det):
                return
    if len(ex.samples) < 1:
        ex.samples.append({"kernel": "_clip_to_max_steps", "n": n})


def run_flags(ex, case):
    """Every spelling of enable / disable (ids, tags, names, regular expressions, lists, True / False, the
    deprecated methods): the active flags and the masks the merit function reports must be those the spelling
    denotes.  Concrete enumeration of spellings on a 3 x 3 problem (not a solver verdict); what a disabled knob /
    target means for the steps is decided symbolically in the other cases."""
    P = OC.Problem(ex, {"nk": 3, "nt": 3})
    try:
        opt = P.make_opt()
    except (Abort, Inconclusive):
        raise
    except Exception:
        raise Abort()
    allv, allt = {0, 1, 2}, {0, 1, 2}
    # (description, call, expected set of inactive knobs, expected set of inactive targets), starting all active
    dis = [
        ("disable(vary=1)", lambda o: o.disable(vary=1), {1}, set()),
        ("disable(vary=[0, 2])", lambda o: o.disable(vary=[0, 2]), {0, 2}, set()),
        ("disable(vary='vt1')", lambda o: o.disable(vary="vt1"), {1}, set()),
        ("disable(vary='vt[01]')", lambda o: o.disable(vary="vt[01]"), {0, 1}, set()),
        ("disable(vary=['vt0', 2])", lambda o: o.disable(vary=["vt0", 2]), {0, 2}, set()),
        ("disable(vary='vt')", lambda o: o.disable(vary="vt"), set(), set()),            # full match only
        ("disable(vary=True)", lambda o: o.disable(vary=True), allv, set()),
        ("disable(vary_name='k2')", lambda o: o.disable(vary_name="k2"), {2}, set()),
        ("disable(vary_name=['k0', 'k.'])", lambda o: o.disable(vary_name=["k0", "k."]), allv, set()),
        ("disable(target=0)", lambda o: o.disable(target=0), set(), {0}),
        ("disable(target='tt2')", lambda o: o.disable(target="tt2"), set(), {2}),
        ("disable(target=[1, 'tt0'])", lambda o: o.disable(target=[1, "tt0"]), set(), {0, 1}),
        ("disable(target=True)", lambda o: o.disable(target=True), set(), allt),
        ("disable(target=2, vary=0, vary_name='k1')", lambda o: o.disable(target=2, vary=0, vary_name="k1"), {0, 1}, {2}),
        ("disable_vary(id=1)", lambda o: o.disable_vary(id=1), {1}, set()),
        ("disable_vary(id=[0, 1])", lambda o: o.disable_vary(id=[0, 1]), {0, 1}, set()),
        ("disable_vary(tag='vt2')", lambda o: o.disable_vary(tag="vt2"), {2}, set()),
        ("disable_vary(id=0, tag='vt2')", lambda o: o.disable_vary(id=0, tag="vt2"), {0, 2}, set()),
        ("disable_vary(tag=['vt0', 'vt1'])", lambda o: o.disable_vary(tag=["vt0", "vt1"]), {0, 1}, set()),
        ("disable_targets(id=2)", lambda o: o.disable_targets(id=2), set(), {2}),
        ("disable_targets(tag='tt1')", lambda o: o.disable_targets(tag="tt1"), set(), {1}),
        ("disable_targets(id=[0], tag='tt2')", lambda o: o.disable_targets(id=[0], tag="tt2"), set(), {0, 2}),
        ("disable_all_vary()", lambda o: o.disable_all_vary(), allv, set()),
        ("disable_all_targets()", lambda o: o.disable_all_targets(), set(), allt),
        ("enable(vary=False)", lambda o: o.enable(vary=False), allv, set()),
        ("enable(target=False)", lambda o: o.enable(target=False), set(), allt),
    ]
    # starting with everything inactive: (call, knobs active afterwards, targets active afterwards)
    en = [
        ("enable(vary=1)", lambda o: o.enable(vary=1), {1}, set()),
        ("enable(vary='vt[12]')", lambda o: o.enable(vary="vt[12]"), {1, 2}, set()),
        ("enable(vary_name='k0')", lambda o: o.enable(vary_name="k0"), {0}, set()),
        ("enable(vary=True)", lambda o: o.enable(vary=True), allv, set()),
        ("enable(target=[0, 'tt1'])", lambda o: o.enable(target=[0, "tt1"]), set(), {0, 1}),
        ("enable(target=True)", lambda o: o.enable(target=True), set(), allt),
        ("enable_vary(id=2)", lambda o: o.enable_vary(id=2), {2}, set()),
        ("enable_vary(tag='vt0')", lambda o: o.enable_vary(tag="vt0"), {0}, set()),
        ("enable_vary(id=[1], tag=['vt0'])", lambda o: o.enable_vary(id=[1], tag=["vt0"]), {0, 1}, set()),
        ("enable_targets(id=1)", lambda o: o.enable_targets(id=1), set(), {1}),
        ("enable_targets(tag='tt[02]')", lambda o: o.enable_targets(tag="tt[02]"), set(), {0, 2}),
        ("enable_all_vary()", lambda o: o.enable_all_vary(), allv, set()),
        ("enable_all_targets()", lambda o: o.enable_all_targets(), set(), allt),
        ("disable(vary=False)", lambda o: o.disable(vary=False), allv, set()),
        ("disable(target=False)", lambda o: o.disable(target=False), set(), allt),
    ]

    def flags(o):
        v = {i for i, x in enumerate(o.vary) if not x.active}
        t = {i for i, x in enumerate(o.targets) if not x.active}
        mi = {i for i, b in enumerate(o._err.mask_input) if not b}
        mo = {i for i, b in enumerate(o._err.mask_output) if not b}
        return v, t, mi, mo
    for desc, call, offv, offt in dis:
        for x in list(opt.vary) + list(opt.targets):
            x.active = True
        try:
            call(opt)
        except (Abort, Inconclusive):
            raise
        except Exception as e:
            ex.fail(f"{desc} raised {type(e).__name__}: {e}", {"spelling": desc})
            return
        OC.note(ex, "flag_spellings")
        v, t, mi, mo = flags(opt)
        if v != offv or t != offt or mi != offv or mo != offt:
            ex.fail(f"{desc}: inactive knobs {sorted(v)} (mask {sorted(mi)}), inactive targets {sorted(t)} (mask {sorted(mo)}); the spelling denotes knobs {sorted(offv)}, targets {sorted(offt)}",
                    {"spelling": desc})
            return
    for desc, call, onv, ont in en:
        for x in list(opt.vary) + list(opt.targets):
            x.active = False
        try:
            call(opt)
        except (Abort, Inconclusive):
            raise
        except Exception as e:
            ex.fail(f"{desc} raised {type(e).__name__}: {e}", {"spelling": desc})
            return
        OC.note(ex, "flag_spellings")
        v, t, mi, mo = flags(opt)
        if v != allv - onv or t != allt - ont or mi != v or mo != t:
            ex.fail(f"{desc}: active knobs {sorted(allv - v)}, active targets {sorted(allt - t)}; the spelling denotes knobs {sorted(onv)}, targets {sorted(ont)}",
                    {"spelling": desc})
            return


def run_case(ex, case):
    if case.get("mode") == "kernel":
        return run_kernel(ex, case)
    if case.get("mode") == "flags":
        return run_flags(ex, case)
    P = OC.Problem(ex, case)
    try:
        opt = P.make_opt()
    except (Abort, Inconclusive):
        raise
    except Exception:
        raise Abort()
    det = {"case": {k: v for k, v in case.items() if not k.startswith("_")}}
    how = case.get("how")
    dis = case.get("disable")
    disabled_knobs, disabled_target = [], None
    kwargs = {}
    if dis:
        kind, idx = dis
        if kind == "vary":
            disabled_knobs = [idx]
            if how == "persistent":
                opt.disable(vary=idx)
            elif how == "step_arg":
                kwargs["disable_vary"] = [idx]
            elif how == "step_name":
                kwargs["disable_vary_name"] = [f"k{idx}"]
            elif how == "step_tag":
                kwargs["disable_vary"] = [f"vt{idx}"]
            elif how == "dep_tag":
                opt.disable_vary(tag=f"vt{idx}")
            elif how == "regex":
                opt.disable(vary=f"vt[{idx}]")
        else:
            disabled_target = idx
            if how == "persistent":
                opt.disable(target=idx)
            elif how == "step_arg":
                kwargs["disable_target"] = [idx]
            elif how == "step_tag":
                kwargs["disable_target"] = [f"tt{idx}"]
            elif how == "dep_id":
                opt.disable_targets(id=idx)
            elif how == "all_but":
                opt.disable_all_targets()
                opt.enable_targets(id=1 - idx)
    if case.get("enable_arg"):
        # knob/target persistently off, enabled for one call only
        kind, idx = case["enable_arg"]
        if kind == "vary":
            opt.disable(vary=idx)
            kwargs["enable_vary"] = [idx]
        else:
            opt.disable(target=idx)
            kwargs["enable_target"] = [idx]
    flags_before = ("".join("y" if v.active else "n" for v in opt._err.vary),
                    "".join("y" if t.active else "n" for t in opt._err.targets))
    start_vals = P.knobs_now()
    first_row = len(opt._log["knobs"])
    P.d.log.clear()
    scen = case.get("scenario")
    try:
        if scen:
            # step() on a matched point (it only records solver.x); disable(vary=1);
            # the knob is then changed by hand; step()
            ex.assume(P.within_tol(0, P.knobs_now()))
            opt.step(1)
            opt.disable(vary=1)
            if scen == "hand":
                nv = ex.real("hand_value")
                ex.assume(tobool(P.lims[1][0] <= nv))
                ex.assume(tobool(nv <= P.lims[1][1]))
                P.d["k1"] = nv
            else:
                opt.reload(0)
                opt.disable(vary=1)
            disabled_knobs = [1]
            start_vals = P.knobs_now()
            first_row = len(opt._log["knobs"])
            P.d.log.clear()
            opt.step(1)
        elif case.get("call") == "solve":
            opt.solve()
        else:
            opt.step(1, **kwargs)
        outcome = "return"
    except (Abort, Inconclusive):
        raise
    except Exception as e:
        outcome = OC.classify(e)
        if outcome not in ("runtime_error", "limit_value_error", "value_error"):
            ex.fail(f"unexpected {outcome}: {e}", det)
            return
    det["outcome"] = outcome
    if not check_rows(ex, P, opt, det, first_row, disabled_knobs if outcome == "return" or case.get("call") != "solve" else [],
                      start_vals):
        return
    if disabled_target is not None:
        OC.note(ex, "disabled_target_checked")
        terms = []
        for (mat, rhs) in P.rec.svd_inputs:
            terms += [term(x) for x in np.asarray(mat, dtype=object).flat] + [term(x) for x in np.asarray(rhs, dtype=object).flat]
        for r in range(first_row, len(opt._log["knobs"])):
            terms += [term(x) for x in opt._log["knobs"][r]]
            terms.append(term(opt._log["penalty"][r]))
        terms += [term(x) for x in P.knobs_now()]
        if not independent_of(ex, terms, f"f{disabled_target}", P,
                              f"the disabled target {disabled_target} influences the least-squares inputs / penalties / knobs", det):
            return
        for (mat, rhs) in P.rec.svd_inputs:
            nact = sum(1 for t in opt._err.targets if t.active) if how in ("persistent", "dep_id", "all_but") else P.NT - 1
            if np.asarray(mat).shape[0] != nact or len(rhs) != nact:
                ex.fail(f"least-squares system has {np.asarray(mat).shape[0]} rows with target {disabled_target} disabled, expected {nact}", det)
                return
    if kwargs and outcome == "return":
        OC.note(ex, "flags_restored")
        flags_after = ("".join("y" if v.active else "n" for v in opt._err.vary),
                       "".join("y" if t.active else "n" for t in opt._err.targets))
        if flags_after != flags_before:
            ex.fail(f"step({kwargs}) left the active flags {flags_after}, before the call {flags_before}", det)
            return
    if len(ex.samples) < 2:
        ex.samples.append(det)


def _base():
    cs = [
        {"tag": "1x1", "nk": 1, "nt": 1, "max_step": True, "call": "solve"},
        {"tag": "1x1", "nk": 1, "nt": 1, "max_step": True, "call": "step"},
        {"tag": "2x1", "nk": 2, "nt": 1, "call": "solve", "disable": ["vary", 1], "how": "persistent"},
        {"tag": "2x1", "nk": 2, "nt": 1, "call": "step", "disable": ["vary", 0], "how": "step_arg"},
        {"tag": "2x1", "nk": 2, "nt": 1, "call": "step", "disable": ["vary", 1], "how": "step_name"},
        {"tag": "2x1", "nk": 2, "nt": 1, "call": "step", "enable_arg": ["vary", 1]},
        {"tag": "1x2", "nk": 1, "nt": 2, "call": "step", "disable": ["target", 0], "how": "persistent"},
        {"tag": "1x2", "nk": 1, "nt": 2, "call": "step", "disable": ["target", 1], "how": "step_arg"},
        {"tag": "1x2", "nk": 1, "nt": 2, "call": "step", "enable_arg": ["target", 1]},
        {"tag": "1x2", "nk": 1, "nt": 2, "call": "step", "disable": ["target", 1], "how": "persistent", "optimize_log": [1]},
        {"tag": "1x2", "nk": 1, "nt": 2, "call": "step", "disable": ["target", 0], "how": "step_arg", "optimize_log": [0]},
        {"tag": "scen", "nk": 2, "nt": 1, "scenario": "hand"},
        {"tag": "2x1", "nk": 2, "nt": 1, "call": "step", "disable": ["vary", 1], "how": "dep_tag"},
        {"tag": "1x2", "nk": 1, "nt": 2, "call": "step", "disable": ["target", 0], "how": "all_but"},
    ]
    return cs


def cases(tier):
    import sys
    from symx import driver
    mod = sys.modules[__name__]
    out = [{"mode": "flags"}, {"mode": "kernel", "n": 2, "which": [1, 1]}, {"mode": "kernel", "n": 2, "which": [1, 0]},
           {"mode": "kernel", "n": 3, "which": [1, 1, 1]}, {"mode": "kernel", "n": 3, "which": [0, 1, 1]}]
    cs = _base()
    if tier != "quick":
        cs += [{"tag": "2x1", "nk": 2, "nt": 1, "max_step": True, "call": "step"},
               {"tag": "2x2", "nk": 2, "nt": 2, "call": "step"},
               {"tag": "2x2", "nk": 2, "nt": 2, "call": "step", "disable": ["target", 1], "how": "step_arg"},
               {"tag": "1x1", "nk": 1, "nt": 1, "max_step": True, "call": "solve", "n_steps": 2},
               {"tag": "1x1", "nk": 1, "nt": 1, "call": "solve", "weights": True},
               {"tag": "1x1", "nk": 1, "nt": 1, "max_step": True, "call": "solve", "n_bisections": 1}]
    for c in cs:
        d = SPLIT.get(c["tag"])
        if d:
            out += driver.split_case(mod, c, d)
        else:
            out.append(c)
    return out

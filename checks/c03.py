"""C03 - removing or replacing a definition leaves no trace.

The real register/unregister/set_value/load/cleanup/clone/verify/refresh code is
run over histories (engine decisions) on symbolic contents.  After every step
the manager is compared with a FRESH manager in which only the surviving
definitions are registered (order of last definition):
  - the support of rdeps/rtasks/deptasks/tartasks (keys with non-empty entries
    and the members below each key) - concrete per path;
  - verify() does not raise; find_deps, _find_dependant_targets, _expr, _tasks agree;
  - refresh() and clone() change none of this;
  - one further assignment of a fresh symbolic value to every location, on both
    managers over copies of the contents: z3 proves all cells equal for all
    values, and neither raises.
"""
import copy

import z3

from symx.driver import get_xdeps
from symx.values import eq, tobool
from symx.core import Abort, Inconclusive
from . import universe as U
from . import c01

ID = "C03"
LEVEL = "model_checking"
FUNCTIONS = [
    "tasks.py:Manager.register", "tasks.py:Manager.unregister", "tasks.py:Manager.set_value", "tasks.py:Manager.load",
    "tasks.py:Manager.cleanup", "tasks.py:Manager.clone", "tasks.py:Manager.verify", "tasks.py:Manager.refresh",
    "tasks.py:Manager.find_deps", "refs.py:RefCount.append", "refs.py:RefCount.remove", "refs.py:MutableRef._expr",
    "refs.py:MutableRef._tasks", "refs.py:MutableRef._find_dependant_targets",
]
ASSUMPTIONS = c01.ASSUMPTIONS[:3] + [
    "the fresh manager is built with Manager.register(ExprTask(...)) over a copy of the current contents",
    "query answers that are lists in toposort order are compared as sets (a topological order is not unique)",
    "where the ordering graph has a false cycle (open finding C01-false-cycle) the order inside the cycle depends on dict insertion order, hence on history: follow-up differences on such a location are matched by the C01 signature",
]
BOUNDS = {
    "quick": "three prefixes with a task writing the list l as a whole and readers inside it (incl. a computed-key read) followed by <=2 operations over {a,c,l0,l1}; histories of <=3 operations (value / expression / += / -= ref / unregister / load / register / an expression assignment that fails because its evaluation raises) over {a,n.x,n.y}, <=2 over {a,n.x,n.y,n.z} and over {a,b,l0,l1}, "
             "indices/queries/verify compared after every step; follow-up assignment (history manager, refreshed copy, fresh manager) to each location of the universe + one outside it after histories of every length 1..3",
    "thorough": "histories <=4 over the same universes and <=3 over {a,b,n.x,n.y,l0,l1}; both builds",
}
OUTSIDE = "longer histories; FunctionTask/LinearKnob histories (covered in C02); copy()"
REQUIRED_CLASSES = ["compared", "unregister", "load", "followup", "refresh_clone", "failed_assignment"]
SIGNATURES = {
    "false_cycle": lambda cj, case: bool((cj.get("detail") or {}).get("false_cycle_through_loc")),
}
PROFILE_CASES = 3
TASKS_PER_CHILD = 20


def list_ops(defs, locs, fail=False):
    ops = c01.list_ops(defs, locs, False)
    ops = [o for o in ops if o[0] != "replace"]
    for t in locs:
        # load() of one (target, expr) pair, overwrite on/off
        cands = U.candidates(t, locs, False)
        dsc = cands[len(defs) % len(cands)]
        nd = dict(defs)
        nd[t] = dsc
        if not U.is_cyclic(nd):
            ops.append(("load", t, dsc, True))
            if t in defs:
                ops.append(("load", t, dsc, False))
            else:
                ops.append(("register", t, dsc))
            # one load() call holding two entries: the same target twice (the later entry replaces the
            # earlier one within the call), and two different targets
            other = cands[(len(defs) + 1) % len(cands)]
            if other != dsc:
                ops.append(("loadn", ((t, other), (t, dsc))))
                # the same with overwrite=False: an existing definition is kept; otherwise the FIRST entry for a
                # target is installed and the later one is skipped like any other existing definition
                ops.append(("loadn", ((t, other), (t, dsc)), False))
    for t in (locs if fail else []):
        # an expression whose evaluation raises (it reads a key that does not exist): the assignment fails;
        # whatever definition of t the manager reports afterwards is the surviving one
        ops.append(("exprfail", t, ("add", ("missing",), ("const", 1))))
    if len(locs) >= 2:
        t1, t2 = locs[len(defs) % len(locs)], locs[(len(defs) + 1) % len(locs)]
        c1, c2 = U.candidates(t1, locs, False), U.candidates(t2, locs, False)
        pair = ((t1, c1[0]), (t2, c2[-1]))
        nd = dict(defs)
        nd.update(dict(pair))
        if t1 != t2 and not U.is_cyclic(nd):
            ops.append(("loadn", pair))
    return ops


def snapshot(m, xd):
    """Support of the four indices as nested sets of strings."""
    out = {}
    for name in ("rdeps", "rtasks", "deptasks", "tartasks"):
        dct = getattr(m, name)
        out[name] = {str(k): frozenset(str(x) for x in v) for k, v in dct.items() if len(v)}
    return out


def queries(m, r, locs):
    out = {}
    for L in U.ALL_LOCS:
        ref = U.getref(r, L)
        out[L] = {
            "deps": frozenset(str(x) for x in m.find_deps([ref])),
            "dependant_targets": frozenset(str(x) for x in ref._find_dependant_targets()),
            "expr": str(ref._expr),
            "tasks": frozenset(str(x) for x in ref._tasks),
            "is_task": ref in m.tasks,
        }
    return out


class CopyState:
    """manager + deep copy of contents (symbolic values shared by reference)"""

    def __init__(self, xd, d, g):
        self.m = xd.Manager()
        self.d = U.copy_contents(d)
        self.r = self.m.ref(self.d, "d")
        self.fr = self.m.ref(U.FContainer(g), "f")


def make_task(xd, w, st, t):
    """the task that defines t in st, built over world w (its refs and its containers)"""
    dsc = st.defs[t]
    if getattr(st, "kinds", {}).get(t) == "fun":
        # a FunctionTask identified by the ref of its target: t = g(p, 0)
        p = dsc[1][1]
        g, d = st.g, w.d

        def action(d=d, t=t, p=p):
            U.setraw(d, t, g(U.getval(d, p), 0))
        tref = U.getref(w.r, t)
        return xd.tasks.FunctionTask(tref, action, set(tref._get_dependencies()), set(U.getref(w.r, p)._get_dependencies()))
    return xd.tasks.ExprTask(U.getref(w.r, t), U.build(dsc, w.r, w.fr))


def compare(ex, st, order, step, last=True, fu_locs=U.ALL_LOCS):
    """Compare st.m with a fresh manager holding the surviving definitions."""
    xd = st.xd
    note(ex, "compared")
    fresh = CopyState(xd, st.d, st.g)
    ExprTask = xd.tasks.ExprTask
    for t in order:
        fresh.m.register(make_task(xd, fresh, st, t))
    fresh.m.cleanup()
    hist = list(st.hist)
    # 1. verify() must hold
    try:
        st.m.verify()
    except (Abort, Inconclusive):
        raise
    except Exception as e:
        ex.fail(f"verify() fails after history: {type(e).__name__}: {str(e)[:120]}", {"history": hist})
        return False
    # 2. supports of the indices
    s1, s2 = snapshot(st.m, xd), snapshot(fresh.m, xd)
    if s1 != s2:
        diff = {k: sorted(set(s1[k].items()) ^ set(s2[k].items()), key=str)[:3] for k in s1 if s1[k] != s2[k]}
        ex.fail(f"index support differs from a fresh manager: {str(diff)[:300]}", {"history": hist})
        return False
    # 3. queries
    q1, q2 = queries(st.m, st.r, None), queries(fresh.m, fresh.r, None)
    if q1 != q2:
        bad = [(L, k, q1[L][k], q2[L][k]) for L in q1 for k in q1[L] if q1[L][k] != q2[L][k]]
        ex.fail(f"query answers differ from a fresh manager: {str(bad[:2])[:300]}", {"history": hist})
        return False
    if sorted(map(tuple, st.m.dump())) != sorted(map(tuple, fresh.m.dump())):
        ex.fail("dump() differs from a fresh manager", {"history": hist})
        return False
    # 4. refresh / clone change nothing
    note(ex, "refresh_clone")
    cl = st.m.clone()
    if snapshot(cl, xd) != s1:
        ex.fail("clone() has different indices than the manager it was cloned from", {"history": hist})
        return False
    # 5. follow-up assignment on the history manager, a refreshed copy of it and the fresh one
    if last:
        for L in fu_locs:
            if not followup(ex, st, order, L, hist, refreshed=False):
                return False
    return True


def followup(ex, st, order, L, hist, refreshed):
    xd = st.xd
    note(ex, "followup")
    v = ex.int(f"fu_{L}_{len(hist)}")
    ExprTask = xd.tasks.ExprTask
    worlds = []
    for kind in ("history", "fresh", "refreshed"):
        w = CopyState(xd, st.d, st.g)
        if kind in ("history", "refreshed"):
            # the follow-up must not disturb the manager under exploration: a second
            # manager is brought to the same state by re-running the recorded operations
            w = st.fork()
            if kind == "refreshed":
                w.m.refresh()
        else:
            for t in order:
                w.m.register(make_task(xd, w, st, t))
        worlds.append((kind, w))
    outs = []
    for kind, w in worlds:
        try:
            U.assign(w.r, L, v)
            outs.append((kind, None, w))
        except (Abort, Inconclusive):
            raise
        except Exception as e:
            outs.append((kind, e, w))
    errs = [(k, type(e).__name__, str(e)[:80]) for k, e, _ in outs if e is not None]
    if errs:
        if len(errs) != len(outs):
            ex.fail(f"follow-up assignment to {L} raises only on some managers: {errs}", {"history": hist, "loc": L})
            return False
        return True
    base = outs[1][2]
    for kind, _, w in (outs[0], outs[2]):
        for M in U.ALL_LOCS:
            ok = ex.prove(eq(U.getval(w.d, M), U.getval(base.d, M)),
                          f"after a follow-up assignment to {L}, location {M} of the {kind} manager differs from the fresh manager")
            if not ok:
                if ex.mode == "sym":
                    cyc = U.false_cycle_locs(st.defs)
                    ex.cexs[-1].detail = {"history": hist, "assigned": L, "loc": M, "false_cycle_tasks": cyc,
                                          "false_cycle_through_loc": M in cyc}
                return False
    return True


def replay_history(ex, st, hist):
    """A second manager brought to the same state by re-running the history
    (needed because follow-up assignments must not disturb the manager under
    exploration)."""
    return st.fork()


def note(ex, k, n=1):
    ex.notes[k] = ex.notes.get(k, 0) + n


class HState(c01.State):
    """c01.State + load/register ops + the ability to fork by re-running."""

    def __init__(self, ex, build, init=None):
        xd = get_xdeps(build)
        self.xd = xd
        self.ex = ex
        self.build = build
        self.m = xd.Manager()
        if init is None:
            self.d = U.make_contents(ex)
            self.g = ex.func("g", 2)
        else:
            d, self.g = init
            self.d = U.copy_contents(d)
        self.init = (U.copy_contents(self.d), self.g)
        self.r = self.m.ref(self.d, "d")
        self.fr = self.m.ref(U.FContainer(self.g), "f")
        self.defs = {}
        self.kinds = {}
        self.order = []
        self.last = {L: U.getval(self.d, L) for L in U.ALL_LOCS}
        self.hist = []
        self.oplog = []
        self.nv = 0
        self.vals = []

    def fresh(self):
        # values are recorded so that a fork re-uses the same symbols
        self.nv += 1
        if self.nv <= len(self.vals):
            return self.vals[self.nv - 1]
        v = (1 + self.ex.choose(2)) if self.plain else self.ex.int(f"v{self.nv}")
        self.vals.append(v)
        return v

    def apply(self, op):
        self.oplog.append(op)
        kind = op[0]
        if kind == "regfun":
            # a function task registered under the ref of its target (t = g(p, 0)); registering does not run it
            t, p = op[1], op[2]
            self.defs[t] = ("call", ("loc", p), ("const", 0))
            self.kinds[t] = "fun"
            self.m.register(make_task(self.xd, self, self, t))
            self._touch(t)
            self.hist.append(f"register(FunctionTask({t} = g({p}, 0)) under the ref of {t})")
            self.ex.notes["function_task_by_ref"] = self.ex.notes.get("function_task_by_ref", 0) + 1
            return
        if kind == "exprfail":
            t, dsc = op[1], op[2]
            ref = U.getref(self.r, t)
            new = U.build(dsc, self.r, self.fr)
            old = self.defs.get(t)
            self.hist.append(f"{t} = {U.show(dsc)}  (evaluation raises)")
            try:
                U.assign(self.r, t, new)
                raised = None
            except (Abort, Inconclusive):
                raise
            except Exception as e:
                raised = e
            if not isinstance(raised, KeyError):
                raise AssertionError(f"assigning an expression that reads a missing key: expected KeyError, got {raised!r}")
            # surviving definition of t = what the manager reports now (the property fixes consistency, not which one survives)
            task = self.m.tasks.get(ref)
            if task is None:
                self.defs.pop(t, None)
                self.kinds.pop(t, None)
                self.order = [x for x in self.order if x != t]
            elif str(getattr(task, "expr", None)) == str(new):
                self.defs[t] = dsc
                self.kinds.pop(t, None)
                self._touch(t)
            elif old is not None and (self.kinds.get(t) == "fun" or str(getattr(task, "expr", None)) == str(U.build(old, self.r, self.fr))):
                pass
            else:
                raise AssertionError(f"after a failed assignment the manager reports the definition {task} for {t}: neither the old nor the new one")
            self.ex.notes["failed_assignment"] = self.ex.notes.get("failed_assignment", 0) + 1
            return
        if kind == "loadn":
            entries = []
            for t, dsc in op[1]:
                entries.append((str(U.getref(self.r, t)), str(U.build(dsc, self.r, self.fr))))
            ow = op[2] if len(op) > 2 else True
            self.hist.append("load([" + ", ".join(f"{t} = {U.show(dsc)}" for t, dsc in op[1]) + "]" + ("" if ow else ", overwrite=False") + ")")
            self.m.load(entries, overwrite=ow)
            for t, dsc in op[1]:
                if not ow and t in self.defs:
                    continue
                self.defs[t] = dsc
                self.kinds.pop(t, None)
                self._touch(t)
            self.ex.notes["load_many"] = self.ex.notes.get("load_many", 0) + 1
            return
        if kind in ("load", "register"):
            t, dsc = op[1], op[2]
            self.hist.append(f"{kind}({t} = {U.show(dsc)}" + (f", overwrite={op[3]})" if kind == "load" else ")"))
            if kind == "load":
                ref = U.getref(self.r, t)
                expr = U.build(dsc, self.r, self.fr)
                self.m.load([(str(ref), str(expr))], overwrite=op[3])
                if op[3] or t not in self.defs:
                    self.defs[t] = dsc
                    self.kinds.pop(t, None)
                    self._touch(t)
                self.ex.notes["load"] = self.ex.notes.get("load", 0) + 1
            else:
                self.m.register(self.xd.tasks.ExprTask(U.getref(self.r, t), U.build(dsc, self.r, self.fr)))
                self.defs[t] = dsc
                self._touch(t)
            return
        before = set(self.defs)
        c01.State.apply(self, op)
        t = op[1]
        if op[0] in ("val", "expr", "unreg", "same"):
            self.kinds.pop(t, None)
        if t in self.defs and op[0] in ("expr", "iadd", "isubref"):
            self._touch(t)
        for k in list(self.order):
            if k not in self.defs:
                self.order.remove(k)

    def _touch(self, t):
        if t in self.order:
            self.order.remove(t)
        self.order.append(t)

    def fork(self):
        w = HState(self.ex, self.build, init=self.init)
        w.vals = self.vals
        for op in self.oplog:
            w.apply(op)
        return w


def run_case(ex, case):
    st = HState(ex, case["build"])
    locs = case["locs"]
    for op in case.get("prefix", []):
        st.apply(c01._tup(op))
    for k in range(case["K"]):
        ops = list_ops(st.defs, locs, fail=True)
        if st.kinds:
            # in-place operators need an expression to extend; a function task has none
            ops = [o for o in ops if not (o[0] in ("iadd", "isubref") and o[1] in st.kinds)]
        # a definition that cannot be evaluated cannot be extended by an in-place operator
        ops = [o for o in ops if not (o[0] in ("iadd", "isubref") and "missing" in str(st.defs.get(o[1])))]
        i = case["first"] if k == 0 else ex.choose(len(ops))
        if i >= len(ops):
            return
        try:
            st.apply(ops[i])
        except (Abort, Inconclusive):
            raise
        except Exception as e:
            ex.fail(f"unexpected {type(e).__name__} during {st.hist[-1] if st.hist else ops[i]}: {str(e)[:100]}",
                    {"history": list(st.hist)})
            return
        fu = list(locs) + [L for L in U.ALL_LOCS if L not in locs][:1]
        if not compare(ex, st, list(st.order), k, last=(k == case["K"] - 1), fu_locs=fu):
            return
    if len(ex.samples) < 2:
        ex.samples.append({"history": list(st.hist), "surviving": {k: U.show(v) for k, v in st.defs.items()}})


def _cases(build, locs, K):
    n0 = len(list_ops({}, locs, fail=True))
    return [{"build": build, "locs": locs, "K": K, "first": i} for i in range(n0)]


# a task writing a container as a whole (l = pair(a)), a reader inside it, then arbitrary history
PREFIXES = [
    [["expr", "l", ["pair", ["loc", "a"]]], ["expr", "b", ["add", ["loc", "l1"], ["const", 1]]]],
    [["expr", "b", ["add", ["loc", "l1"], ["const", 1]]], ["expr", "l", ["pair", ["loc", "a"]]]],
    [["expr", "l", ["pair", ["loc", "c"]]], ["expr", "a", ["lidx", ["mod", ["abs", ["loc", "b"]], ["const", 2]]]]],
    [["expr", "a", ["pidx", ["mul", ["loc", "c"], ["const", 2]], 1]]],
    # tasks of another kind identified by a ref: a FunctionTask registered under its target's ref, a reader of it
    [["regfun", "c", "a"], ["expr", "l0", ["add", ["loc", "c"], ["const", 1]]]],
    [["regfun", "l1", "c"]],
]


def cases(tier):
    nest = ["a", "n.x", "n.y", "n.z"]
    lst = ["a", "b", "l0", "l1"]
    if tier == "quick":
        pref = []
        for pf in PREFIXES:
            for c in _cases("pure", ["a", "c", "l0", "l1"], 2):
                pref.append(dict(c, prefix=pf))
        return pref + (_cases("pure", ["a", "n.x", "n.y"], 3) + _cases("pure", nest, 2) + _cases("pure", nest, 1)
                + _cases("pure", lst, 2) + _cases("pure", lst, 1))
    out = []
    for b in ("pure", "compiled"):
        for K in (1, 2, 3):
            out += _cases(b, nest, K) + _cases(b, lst, K) + _cases(b, ["a", "b", "n.x", "n.y", "l0", "l1"], K)
        if b == "pure":
            out += _cases(b, nest, 4)
    return out

"""C16 - Newton step is the least-squares solution; scalings and Jacobians consistent.

(a) SVD.lstsq *given the factors*: a real SVD object whose U, s, Vh are replaced by
    symbolic arrays (s sorted, non-negative: numpy's documented contract), symbolic
    right-hand side and rcond >= 0, every sing_val_cutoff, and TWO calls on the same
    object with different rcond/cutoff.  The real lstsq forks on `s > 0` and
    `s < rcond*s[0]`, so the kept set is concrete per path; z3 proves the result
    equal, as a polynomial identity with opaque inverses, to the reference
    sum_{i kept} v_i (u_i . b) inv(s_i) written here.  That this is the minimum-norm
    least-squares solution is the SVD theorem (trusted mathematics).
(b) _x_to_knobs o _knobs_to_x = id and back, _scaled_to_native o _scaled_from_native =
    id and back, for symbolic positive weights, lo < hi, r0 < r1 (over the reals).
(c) View Jacobians: with a linear symbolic merit function A.k + b the forward
    difference is exact over the reals; z3 proves view.get_jacobian(x) equal to the
    analytic Jacobian of view(.) for native and rescaled views and to 2 f^T J for
    the scalar view.
(e) Newton system: with uninterpreted merit functions and the recording LAPACK stub of optcommon, the matrix
    and right-hand side handed to the least-squares solver in every non-Broyden Jacobian step equal the
    finite-difference Jacobian / residuals of the current problem (active targets with their current weights
    and requested values, active knobs) at the current point - also when the optimizer returns to a point it
    has already stepped from.  Together with (a) this is the symbolic content of "the first step lands on
    the solution of a consistent linear problem".
Clause (d) of the property (first step lands on the solution with real LAPACK in
binary64, condition number <= 100) cannot be encoded (no model of
numpy.linalg.svd): not claimed.
"""
import numpy as np
import z3

from symx.driver import get_xdeps
from symx.values import SymReal, tobool, eq, lift_real, INV
from symx.core import Abort, Inconclusive
from symx.npfacade import FACADE

ID = "C16"
LEVEL = "model_checking"
FUNCTIONS = [
    "optimize/matrixutils.py:SVD.lstsq", "optimize/optimize.py:MeritFunctionForMatch._x_to_knobs",
    "optimize/optimize.py:MeritFunctionForMatch._knobs_to_x", "optimize/optimize.py:MeritFuctionView._scaled_to_native",
    "optimize/optimize.py:MeritFuctionView._scaled_from_native", "optimize/optimize.py:MeritFuctionView.get_jacobian",
    "optimize/optimize.py:MeritFunctionForMatch.get_jacobian", "optimize/optimize.py:MeritFuctionView.__call__",
    "optimize/optimize.py:MeritFunctionForMatch._get_x_limits",
]
ASSUMPTIONS = [
    "floats are reals; products are exact (non-linear real arithmetic), 1/x is an opaque inv(x) with inv(x)*x == 1",
    "numpy.linalg.svd returns factors with s sorted decreasingly and non-negative (numpy's contract, exercised by the repository tests); orthonormality is not needed for (a)",
    "the minimum-norm least-squares characterisation of the truncated SVD formula is trusted mathematics",
    "(d) first-step-lands-on-solution with real LAPACK in binary64 is outside this technique",
    "(e) Newton system: unit knob weights, probe step 1e-3, target weights 1 or 2, non-Broyden steps; the solver keeps its own point when the knobs agree with it within 1e-12 (Optimize.step), so the system may be taken at either point; every step is cut right after its system is recorded (an interrupted step followed by reload(0) is itself a legal history)",
]
BOUNDS = {
    "quick": "(a) shapes m,n <= 3 (all 9), every cutoff, two successive calls; (b) 1 and 2 knobs; (c) 1x1, 2x1, 1x2, 2x2 linear problems, native / rescaled / scalar views; (e) Newton system = finite-difference Jacobian of the current problem at the current point: 8 call sequences on 1x1 / 1x2 / 2x1 that return to the same point with another configuration (target off for one call, enabled later, weight or requested value changed, active knob swapped)",
    "thorough": "(a) adds 4x2, 2x4, 4x4 (single call); (c) 2x2 with both rescale and scalar; (e) the same sequences with every step but the last run to its end",
}
OUTSIDE = "clause (d) with real LAPACK and binary64 rounding; shapes beyond 4x4"
REQUIRED_CLASSES = ["lstsq_checked", "lstsq_second_call", "roundtrip_checked", "jacobian_checked", "rank_deficient_path", "newton_system_checked"]
REPLAY_REALS = ["fraction"]
PROFILE_CASES = 4
TASKS_PER_CHILD = 20


def note(ex, k, n=1):
    ex.notes[k] = ex.notes.get(k, 0) + n


def term(x):
    return x.e if isinstance(x, SymReal) else lift_real(x)


def run_lstsq(ex, case):
    xd = get_xdeps("pure")
    import importlib
    MU = importlib.import_module("xdeps.optimize.matrixutils")
    SymReal.exact_mul = True
    try:
        m, n = case["m"], case["n"]
        K = min(m, n)
        sv = MU.SVD(np.eye(m, n))
        sv.U = np.array([[ex.real(f"u{i}{j}") for j in range(K)] for i in range(m)], dtype=object)
        sv.s = np.array([ex.real(f"s{i}") for i in range(K)], dtype=object)
        sv.Vh = np.array([[ex.real(f"v{i}{j}") for j in range(n)] for i in range(K)], dtype=object)
        for i in range(K):
            ex.assume(tobool(sv.s[i] >= 0))
            if i:
                ex.assume(tobool(sv.s[i - 1] >= sv.s[i]))
        # the oracle works on its own copies: the code under test must not be able to change them
        U0, S0, V0 = sv.U.copy(), sv.s.copy(), sv.Vh.copy()
        ncalls = case.get("calls", 2)
        for call in range(ncalls):
            rc = ex.real(f"rc{call}")
            ex.assume(tobool(rc >= 0))
            cutopts = [None] + list(range(1, K + 1))
            cut = cutopts[ex.choose(len(cutopts))]
            use_default_rcond = ex.choose(2) == 1
            b = np.array([ex.real(f"b{call}_{i}") for i in range(m)], dtype=object)
            if use_default_rcond:
                x = sv.lstsq(b, sing_val_cutoff=cut)
                rcv = sv.rcond
            else:
                x = sv.lstsq(b, rcond=rc, sing_val_cutoff=cut)
                rcv = rc
            kcut = K if cut is None else cut
            note(ex, "lstsq_checked")
            if call:
                note(ex, "lstsq_second_call")
            det = {"shape": [m, n], "cutoff": cut, "call": call, "default_rcond": use_default_rcond}
            kept = []
            for i in range(kcut):
                keep = bool(S0[i] > 0) and not bool(S0[i] < rcv * S0[0])
                kept.append(keep)
            if not all(kept):
                note(ex, "rank_deficient_path")
            det["kept"] = kept
            for j in range(n):
                ref = z3.RealVal(0)
                for i in range(kcut):
                    if kept[i]:
                        ub = z3.Sum([term(U0[r, i]) * term(b[r]) for r in range(m)])
                        ref = ref + term(V0[i, j]) * ub * INV(term(S0[i]))
                if not ex.prove(term(x[j]) == ref, f"lstsq {m}x{n} call {call}: component {j} is not sum over kept singular values of v_i (u_i.b)/s_i", det):
                    return
            for arr0, arr1, nm in ((U0, sv.U, "U"), (S0, sv.s, "s"), (V0, sv.Vh, "Vh")):
                for a0, a1 in zip(arr0.flat, arr1.flat):
                    if a0 is not a1 and not ex.prove(term(a0) == term(a1), f"lstsq call {call} modified the stored factor {nm}", det):
                        return
        if len(ex.samples) < 1:
            ex.samples.append({"lstsq": [m, n], "calls": ncalls})
    finally:
        SymReal.exact_mul = False


WPOOL = [1.0, 2.0, 0.25]
RPOOL = [(-1.0, 1.0), (0.0, 1.0), (2.0, 5.0)]


def _mf(ex, xd, nk, weights=True, limits=True, concrete_weights=False):
    import xdeps.optimize.optimize as O
    import xdeps.optimize.jacobian as J
    import xdeps.general as G
    O.np = FACADE
    J.np = FACADE
    G._print.suppress = True
    d = {}
    vary = []
    lims = []
    for i in range(nk):
        if concrete_weights:
            w = WPOOL[(i + concrete_weights) % len(WPOOL)]
        else:
            w = ex.real(f"w{i}") if weights else None
            if w is not None:
                ex.assume(tobool(w > 0))
        lo, hi = ex.real(f"lo{i}"), ex.real(f"hi{i}")
        ex.assume(tobool(lo < hi))
        v = O.Vary(f"k{i}", d, limits=None, step=1e-3, weight=w)
        v.limits = np.array([lo, hi], dtype=object)
        lims.append((lo, hi))
        vary.append(v)
    return O, d, vary, lims


def run_roundtrip(ex, case):
    xd = get_xdeps("pure")
    SymReal.exact_mul = True
    try:
        nk = case["nk"]
        O, d, vary, lims = _mf(ex, xd, nk)
        mf = O.MeritFunctionForMatch(vary, [], [], False, 0, False, {}, [1e-3] * nk, True)
        ks = [ex.real(f"k{i}") for i in range(nk)]
        xs = [ex.real(f"x{i}") for i in range(nk)]
        note(ex, "roundtrip_checked")
        back = mf._x_to_knobs(mf._knobs_to_x(ks))
        for i in range(nk):
            if not ex.prove(eq(back[i], ks[i]), f"_x_to_knobs(_knobs_to_x(k)) != k (knob {i})"):
                return
        back = mf._knobs_to_x(mf._x_to_knobs(np.array(xs, dtype=object)))
        for i in range(nk):
            if not ex.prove(eq(back[i], xs[i]), f"_knobs_to_x(_x_to_knobs(x)) != x (knob {i})"):
                return
        r0, r1 = ex.real("r0"), ex.real("r1")
        ex.assume(tobool(r0 < r1))
        view = O.MeritFuctionView(mf, rescale_x=(r0, r1))
        xa = np.array(xs, dtype=object)
        try:
            a = view._scaled_from_native(view._scaled_to_native(xa))
            b = view._scaled_to_native(view._scaled_from_native(xa))
        except ValueError:
            return            # bounds too large to normalise: documented refusal
        for i in range(nk):
            if not ex.prove(eq(a[i], xs[i]), f"_scaled_from_native(_scaled_to_native(x)) != x (component {i})"):
                return
            if not ex.prove(eq(b[i], xs[i]), f"_scaled_to_native(_scaled_from_native(x)) != x (component {i})"):
                return
        # limits of the rescaled view are the normalised interval, of the native view lo/w .. hi/w
        xl = mf._get_x_limits()
        for i in range(nk):
            if not ex.prove(term(xl[i][0] * vary[i].weight) == term(lims[i][0]), f"_get_x_limits lower bound of knob {i} is not lo/weight"):
                return
            if not ex.prove(term(xl[i][1] * vary[i].weight) == term(lims[i][1]), f"_get_x_limits upper bound of knob {i} is not hi/weight"):
                return
        if len(ex.samples) < 1:
            ex.samples.append({"roundtrip": nk})
    finally:
        SymReal.exact_mul = False


def run_jacobian(ex, case):
    xd = get_xdeps("pure")
    SymReal.exact_mul = True
    try:
        nk, nt = case["nk"], case["nt"]
        variant = 1 + ex.choose(2)
        O, d, vary, lims = _mf(ex, xd, nk, concrete_weights=variant)
        A = [[ex.real(f"a{t}{i}") for i in range(nk)] for t in range(nt)]
        bb = [ex.real(f"b{t}") for t in range(nt)]
        tw = [WPOOL[(t + variant + 1) % len(WPOOL)] for t in range(nt)]

        class Act(O.Action):
            def run(self):
                return {f"t{t}": sum((A[t][i] * d[f"k{i}"] for i in range(nk)), bb[t]) for t in range(nt)}
        act = Act()
        for i in range(nk):
            d[f"k{i}"] = ex.real(f"k0_{i}")
        targets = [act.target(f"t{t}", 0.0, tol=1e-9, weight=tw[t]) for t in range(nt)]
        mf = O.MeritFunctionForMatch(vary, targets, [act], False, 0, False, {}, [1e-3] * nk, False, show_call_counter=False)
        xs = np.array([ex.real(f"x{i}") for i in range(nk)], dtype=object)
        kind = case["view"]
        wts = [v.weight if v.weight is not None else 1.0 for v in vary]
        note(ex, "jacobian_checked")
        det = {"view": kind, "shape": [nk, nt]}
        if kind == "native":
            view = O.MeritFuctionView(mf, check_limits=False, return_scalar=False)
            jac = view.get_jacobian(xs)
            for t in range(nt):
                for i in range(nk):
                    want = term(A[t][i]) * term(wts[i]) * term(tw[t])
                    if not ex.prove(term(jac[t, i]) == want, f"native view: jacobian[{t},{i}] != d view_t / d x_i", det):
                        return
        elif kind == "rescaled":
            r0, r1 = RPOOL[ex.choose(len(RPOOL))]
            view = O.MeritFuctionView(mf, check_limits=False, return_scalar=False, rescale_x=(r0, r1))
            try:
                jac = view.get_jacobian(xs)
            except ValueError:
                return
            xl = mf._get_x_limits()
            for t in range(nt):
                for i in range(nk):
                    # x_native = lo + (x - r0) (hi - lo)/(r1 - r0)
                    want = term(A[t][i]) * term(wts[i]) * term(tw[t]) * (term(xl[i][1]) - term(xl[i][0])) / term(r1 - r0)
                    if not ex.prove(term(jac[t, i]) == want, f"rescaled view: jacobian[{t},{i}] != d view_t / d x_i", det):
                        return
        else:
            view = O.MeritFuctionView(mf, check_limits=False, return_scalar=True)
            g = view.get_jacobian(xs)
            f = [(sum((A[t][i] * (xs[i] * wts[i]) for i in range(nk)), bb[t]) - 0.0) * tw[t] for t in range(nt)]
            for i in range(nk):
                want = z3.Sum([2 * term(f[t]) * term(A[t][i]) * term(wts[i]) * term(tw[t]) for t in range(nt)])
                if not ex.prove(term(g[i]) == want, f"scalar view: gradient[{i}] != 2 f^T J", det):
                    return
        if len(ex.samples) < 1:
            ex.samples.append(det)
    finally:
        SymReal.exact_mul = False


NEWTON_SCENARIOS = {
    # name: (nk, nt, [calls])
    "fresh_1x2": (1, 2, ["step"]),
    "fresh_2x1": (2, 1, ["step"]),
    "target_off_for_one_call_1x2": (1, 2, ["step_dt1", "reload0", "step"]),
    "target_enabled_later_1x2": (1, 2, ["disable_t1", "step", "enable_t1", "reload0", "step"]),
    "target_weight_changed_1x1": (1, 1, ["step", "reload0", "weight_t0", "step"]),
    "target_value_changed_1x1": (1, 1, ["step", "reload0", "value_t0", "step"]),
    "knob_swapped_2x1": (2, 1, ["step_dv1", "reload0", "step_dv0"]),
    "same_point_again_1x1": (1, 1, ["step", "reload0", "step"]),
}


def run_newton(ex, case):
    """The linear system handed to the least-squares solver at every non-Broyden Jacobian step is the
    finite-difference Jacobian of the CURRENT problem at the CURRENT point: rows = the targets active during
    that call (their current weights and requested values), columns = the active knobs, right-hand side = the
    current residuals.  Uninterpreted merit functions, symbolic start point / limits / tolerances; LAPACK is the
    recording stub of optcommon.  Call sequences return to the same point with another configuration."""
    from . import optcommon as OC
    nk, nt, calls = NEWTON_SCENARIOS[case["scenario"]]
    P = OC.Problem(ex, {"nk": nk, "nt": nt})
    try:
        opt = P.make_opt()
    except (Abort, Inconclusive):
        raise
    except Exception:
        raise Abort()
    h = 1e-3                              # Vary(step=1e-3), unit knob weights: the probe step in x space
    tw = [1.0] * nt                       # target weights as the harness knows them
    det = {"scenario": case["scenario"], "calls": []}
    last_step = max(i for i, c in enumerate(calls) if c.startswith("step"))
    for pos, name in enumerate(calls):
        det["calls"].append(name)
        n0 = len(P.rec.svd_inputs)
        # every step is cut right after its system has been recorded (as if the user's action had been
        # interrupted there): what follows the least-squares call is the subject of C09/C10/C15, and a
        # reload(0) comes next in every multi-call sequence
        P.rec.stop_next = True if case.get("cut", True) else (pos == last_step)
        kw = {}
        if name == "reload0":
            opt.reload(0)
            continue
        if name == "disable_t1":
            opt.disable(target=1)
            continue
        if name == "enable_t1":
            opt.enable(target=1)
            continue
        if name == "weight_t0":
            opt.targets[0].weight = 2.0
            tw[0] = 2.0
            continue
        if name == "value_t0":
            nv = ex.real("tv_new")
            opt.targets[0].value = nv
            P.tvals[0] = nv
            continue
        if name == "step_dt1":
            kw = {"disable_target": [1]}
        elif name == "step_dv1":
            kw = {"disable_vary": [1]}
        elif name == "step_dv0":
            kw = {"disable_vary": [0]}
        act_t = [i for i, t in enumerate(opt.targets) if t.active and not (name == "step_dt1" and i == 1)]
        act_k = [j for j, v in enumerate(opt.vary) if v.active and not (name == "step_dv1" and j == 1) and not (name == "step_dv0" and j == 0)]
        x = P.knobs_now()
        # the solver keeps its own point when the knobs agree with it within 1e-12 (Optimize.step): the system
        # is then taken at that point
        xs_old = None if opt.solver.x is None else list(opt.solver.x)
        try:
            opt.step(1, **kw)
        except (Abort, Inconclusive):
            raise
        except OC.StopAfterSystem:
            pass
        except Exception as e:
            oc = OC.classify(e)
            if oc not in ("runtime_error", "limit_value_error", "value_error"):
                ex.fail(f"unexpected {oc} in {name}: {e}", det)
                return
        for (mat, rhs) in P.rec.svd_inputs[n0:]:
            mat = np.asarray(mat, dtype=object)
            note(ex, "newton_system_checked")
            if mat.shape[0] != len(act_t) or len(rhs) != len(act_t):
                ex.fail(f"{name}: the least-squares system has {mat.shape[0]} rows, {len(act_t)} targets are active in this call", det)
                return
            if mat.shape[1] != len(act_k):
                if mat.shape[1] < len(act_k):
                    note(ex, "columns_masked_by_limits")
                    continue
                ex.fail(f"{name}: the least-squares system has {mat.shape[1]} columns, {len(act_k)} knobs are active in this call", det)
                return

            def F(i, pt):
                return (P.fs[i](*pt) - P.tvals[i]) * tw[i]
            def system_at(pt):
                conj = []
                for r, i in enumerate(act_t):
                    conj.append(term(rhs[r]) == term(F(i, pt)))
                    for c, j in enumerate(act_k):
                        xp = list(pt)
                        xp[j] = xp[j] + h
                        conj.append(term(mat[r, c]) == term((F(i, xp) - F(i, pt)) / h))
                return z3.And(*conj)
            alts = [system_at(x)]
            if xs_old is not None and len(xs_old) == len(x):
                alts.append(system_at(xs_old))
            if not ex.prove(z3.Or(*alts),
                            f"{name}: the matrix / right-hand side handed to the least-squares solver are not the finite-difference Jacobian / residuals of the current problem (targets {act_t}, knobs {act_k}) at the current point", det):
                return
    if len(ex.samples) < 1:
        ex.samples.append(det)


def run_case(ex, case):
    return {"lstsq": run_lstsq, "roundtrip": run_roundtrip, "jacobian": run_jacobian, "newton": run_newton}[case["mode"]](ex, case)


def cases(tier):
    out = []
    for m in (1, 2, 3):
        for n in (1, 2, 3):
            out.append({"mode": "lstsq", "m": m, "n": n, "calls": 2 if m * n <= 6 else 1})
            if m * n > 6:
                out.append({"mode": "lstsq", "m": m, "n": n, "calls": 2, "light": True})
    out += [{"mode": "roundtrip", "nk": 1}, {"mode": "roundtrip", "nk": 2}]
    for (nk, nt) in ((1, 1), (2, 1), (1, 2), (2, 2)):
        for view in ("native", "rescaled", "scalar"):
            if (nk, nt) == (2, 2) and view == "rescaled" and tier == "quick":
                continue
            out.append({"mode": "jacobian", "nk": nk, "nt": nt, "view": view})
    for sc in NEWTON_SCENARIOS:
        out.append({"mode": "newton", "scenario": sc})
    if tier != "quick":
        # the same sequences with every step but the last run to its end (about 300 000 paths)
        import sys
        from symx import driver
        for sc in NEWTON_SCENARIOS:
            if len(NEWTON_SCENARIOS[sc][2]) > 1:
                out += driver.split_case(sys.modules[__name__], {"mode": "newton", "scenario": sc, "cut": False}, 8)
    if tier != "quick":
        for (m, n) in ((4, 2), (2, 4), (4, 4)):
            out.append({"mode": "lstsq", "m": m, "n": n, "calls": 1})
    return out

"""Parsing lemma for C07: Table._split_name_count_offset over ALL bounded strings.

The function's source is read from the working tree on every run and translated
from its AST into path conditions and results over the SMT theory of strings
(`x in s` -> str.contains, `s.split(sep, 1)` -> str.indexof/str.substr,
`int(s)` is kept opaque as the numeral string it is applied to - int() is
CPython's).  For each of the six documented forms
    n   n::c   n<<k   n>>k   n::c<<k   n::c>>k
and each path through the function the query
    assumptions(n, c, k)  and  path condition  and  not(result == expected)
must be unsat.  Decided by cvc5 (strings-exp, strings-fmf); z3's sequence solver
runs the same SMT-LIB text as a second opinion (its `unknown` is tolerated, a
disagreement sat/unsat is not).  A sat answer is replayed on the real function.
A function body outside the translated subset is reported as inconclusive.
"""
import ast
import inspect
import textwrap
import time

import z3

from symx.driver import get_xdeps
from symx.core import Inconclusive

S = z3.StringSort()


class Unsupported(Exception):
    pass


class IntOf:
    """sign * int(strterm) ; or a constant"""

    def __init__(self, terms=(), const=0):
        self.terms = list(terms)    # [(sign, strterm)]
        self.const = const

    def add(self, other, sign):
        if isinstance(other, IntOf):
            return IntOf(self.terms + [(s * sign, t) for s, t in other.terms], self.const + sign * other.const)
        if isinstance(other, int):
            return IntOf(self.terms, self.const + sign * other)
        raise Unsupported("int arithmetic operand")

    def __repr__(self):
        return f"IntOf({self.terms}, {self.const})"


def split1(s, sep):
    i = z3.IndexOf(s, sep, 0)
    return z3.SubString(s, 0, i), z3.SubString(s, i + z3.Length(sep), z3.Length(s) - i - z3.Length(sep))


class Interp:
    """Path-enumerating symbolic interpreter for the subset of Python used by
    _split_name_count_offset."""

    def __init__(self, fdef, selfattrs):
        self.fdef = fdef
        self.selfattrs = selfattrs

    def run(self, arg):
        params = [a.arg for a in self.fdef.args.args]
        env = {params[1]: arg}
        return list(self.block(self.fdef.body, env, []))

    def block(self, stmts, env, pc):
        if not stmts:
            yield ("fallthrough", env, pc)
            return
        st, rest = stmts[0], stmts[1:]
        if isinstance(st, ast.Expr) and isinstance(st.value, ast.Constant):
            yield from self.block(rest, env, pc)
        elif isinstance(st, ast.Return):
            yield ("return", self.expr(st.value, env), pc)
        elif isinstance(st, ast.Assign):
            if len(st.targets) != 1:
                raise Unsupported("multiple assignment targets")
            env = dict(env)
            self.assign(st.targets[0], self.expr(st.value, env), env)
            yield from self.block(rest, env, pc)
        elif isinstance(st, ast.AugAssign):
            if not isinstance(st.target, ast.Name) or not isinstance(st.op, (ast.Add, ast.Sub)):
                raise Unsupported("augmented assignment form")
            env = dict(env)
            cur = env[st.target.id]
            cur = cur if isinstance(cur, IntOf) else IntOf(const=cur)
            env[st.target.id] = cur.add(self.expr(st.value, env), 1 if isinstance(st.op, ast.Add) else -1)
            yield from self.block(rest, env, pc)
        elif isinstance(st, ast.If):
            c = self.cond(st.test, env)
            for kind, e2, pc2 in self.block(st.body, env, pc + [c]):
                if kind == "fallthrough":
                    yield from self.block(rest, e2, pc2)
                else:
                    yield (kind, e2, pc2)
            for kind, e2, pc2 in self.block(st.orelse, env, pc + [z3.Not(c)]):
                if kind == "fallthrough":
                    yield from self.block(rest, e2, pc2)
                else:
                    yield (kind, e2, pc2)
        else:
            raise Unsupported(f"statement {type(st).__name__}")

    def assign(self, target, value, env):
        if isinstance(target, ast.Name):
            env[target.id] = value
        elif isinstance(target, ast.Tuple):
            if not isinstance(value, tuple) or len(value) != len(target.elts):
                raise Unsupported("tuple unpacking")
            for t, v in zip(target.elts, value):
                self.assign(t, v, env)
        else:
            raise Unsupported("assignment target")

    def cond(self, e, env):
        if isinstance(e, ast.Compare) and len(e.ops) == 1 and isinstance(e.ops[0], ast.In):
            return z3.Contains(self.expr(e.comparators[0], env), self.expr(e.left, env))
        raise Unsupported("condition form")

    def expr(self, e, env):
        if isinstance(e, ast.Constant):
            if e.value is None or isinstance(e.value, int):
                return e.value
            if isinstance(e.value, str):
                return z3.StringVal(e.value)
            raise Unsupported("constant")
        if isinstance(e, ast.Name):
            return env[e.id]
        if isinstance(e, ast.Attribute) and isinstance(e.value, ast.Name) and e.value.id == "self":
            v = self.selfattrs[e.attr]
            return z3.StringVal(v)
        if isinstance(e, ast.Tuple):
            return tuple(self.expr(x, env) for x in e.elts)
        if isinstance(e, ast.Call):
            f = e.func
            if isinstance(f, ast.Name) and f.id == "int" and len(e.args) == 1:
                return IntOf([(1, self.expr(e.args[0], env))])
            if isinstance(f, ast.Attribute) and f.attr == "split" and len(e.args) == 2:
                if not (isinstance(e.args[1], ast.Constant) and e.args[1].value == 1):
                    raise Unsupported("split maxsplit")
                # only reached under `sep in s` (checked by the caller through the path condition)
                return split1(self.expr(f.value, env), self.expr(e.args[0], env))
            raise Unsupported("call")
        raise Unsupported(f"expression {type(e).__name__}")


def get_interp(xd):
    T = xd.Table
    src = textwrap.dedent(inspect.getsource(T._split_name_count_offset))
    fdef = ast.parse(src).body[0]
    # split() is only modelled when the separator is known to be present: check the source shape
    t = T({"name": __import__("numpy").array(["x"])})
    attrs = {"_sep_previous": t._sep_previous, "_sep_next": t._sep_next, "_sep_count": t._sep_count}
    return Interp(fdef, attrs), t


DIG = z3.Range("0", "9")
NAT = z3.Union(z3.Re("0"), z3.Concat(z3.Range("1", "9"), z3.Star(DIG)))
INT = z3.Concat(z3.Option(z3.Union(z3.Re("-"), z3.Re("+"))), NAT)
ANY = z3.AllChar(z3.ReSort(S))
NAMERE = z3.Star(z3.Intersect(ANY, z3.Complement(z3.Union(z3.Re(":"), z3.Re("<"), z3.Re(">")))))


def form_input(form, n, c, k):
    sv = z3.StringVal
    return {
        "n": (n, (n, None, None)),
        "n::c": (z3.Concat(n, sv("::"), c), (n, c, None)),
        "n<<k": (z3.Concat(n, sv("<<"), k), (n, None, (-1, k))),
        "n>>k": (z3.Concat(n, sv(">>"), k), (n, None, (1, k))),
        "n::c<<k": (z3.Concat(n, sv("::"), c, sv("<<"), k), (n, c, (-1, k))),
        "n::c>>k": (z3.Concat(n, sv("::"), c, sv(">>"), k), (n, c, (1, k))),
    }[form]


def matches(result, expected):
    """z3 Bool: returned (name, count, offset) equals the expected triple."""
    if not (isinstance(result, tuple) and len(result) == 3):
        return z3.BoolVal(False)
    name, count, offset = result
    en, ec, eo = expected
    conds = [name == en]
    if ec is None:
        conds.append(z3.BoolVal(count is None))
    else:
        ok = isinstance(count, IntOf) and count.const == 0 and len(count.terms) == 1 and count.terms[0][0] == 1
        conds.append(count.terms[0][1] == ec if ok else z3.BoolVal(False))
    if isinstance(offset, int):
        offset = IntOf(const=offset)
    if eo is None:
        conds.append(z3.BoolVal(isinstance(offset, IntOf) and not offset.terms and offset.const == 0))
    else:
        ok = isinstance(offset, IntOf) and offset.const == 0 and len(offset.terms) == 1 and offset.terms[0][0] == eo[0]
        conds.append(offset.terms[0][1] == eo[1] if ok else z3.BoolVal(False))
    return z3.And(*conds)


def cvc5_check(smt2, tlimit_ms=170000):
    import cvc5
    slv = cvc5.Solver()
    slv.setOption("strings-exp", "true")
    slv.setOption("strings-fmf", "true")
    slv.setOption("produce-models", "true")
    slv.setOption("tlimit", str(tlimit_ms))
    p = cvc5.InputParser(slv)
    p.setStringInput(cvc5.InputLanguage.SMT_LIB_2_6, smt2, "q")
    sm = p.getSymbolManager()
    out = []
    while True:
        cmd = p.nextCommand()
        if cmd.isNull():
            break
        r = cmd.invoke(slv, sm)
        if r.strip():
            out.append(r.strip())
    return out


def run(ex, case):
    xd = get_xdeps(case["build"])
    try:
        interp, table = get_interp(xd)
        validate_translator(interp, table)
    except Unsupported as e:
        raise Inconclusive(f"_split_name_count_offset is outside the translated subset: {e}")
    form = case["form"]
    n, c, k = z3.String("n"), z3.String("c"), z3.String("k")
    inp, expected = form_input(form, n, c, k)
    paths = interp.run(inp)
    assume = [z3.InRe(n, NAMERE), z3.InRe(c, INT), z3.InRe(k, INT), z3.Length(n) <= case["maxname"],
              z3.Length(c) <= 3, z3.Length(k) <= 3]
    for pi, (kind, result, pc) in enumerate(paths):
        if kind != "return":
            ex.fail(f"form {form}: a path falls off the end of the function")
            return
        s = z3.Solver()
        s.add(*assume)
        s.add(*pc)
        s.add(z3.Not(matches(result, expected)))
        smt2 = "(set-logic QF_SLIA)\n(set-option :produce-models true)\n" + s.to_smt2() + "\n(get-value (n c k))\n"
        t0 = time.perf_counter()
        out = cvc5_check(smt2)
        ex.stats.solver_s += time.perf_counter() - t0
        ex.stats.q_assert += 1
        verdict = out[0] if out else "unknown"
        if verdict == "unsat":
            out = out[:1]          # (get-value) after unsat is an expected error
        if any(o.startswith("(error") for o in out):
            raise Inconclusive(f"cvc5 error on form {form} path {pi}: {out}")
        if verdict == "unsat":
            ex.stats.unsat += 1
            ex.stats.proved += 1
            ex.notes["lemma_unsat"] = ex.notes.get("lemma_unsat", 0) + 1
            # second solver, short budget: only a definite disagreement matters
            s.set("timeout", 5000)
            r2 = s.check()
            if r2 == z3.sat:
                raise Inconclusive(f"solvers disagree on form {form} path {pi}: cvc5 unsat, z3 sat {s.model()}")
            ex.notes["z3_agrees" if r2 == z3.unsat else "z3_unknown"] = ex.notes.get("z3_agrees" if r2 == z3.unsat else "z3_unknown", 0) + 1
        elif verdict == "sat":
            ex.stats.sat += 1
            vals = _parse_values(out[1] if len(out) > 1 else "")
            text = {"n": vals.get("n", ""), "n::c": f"{vals.get('n', '')}::{vals.get('c', '')}",
                    "n<<k": f"{vals.get('n', '')}<<{vals.get('k', '')}", "n>>k": f"{vals.get('n', '')}>>{vals.get('k', '')}",
                    "n::c<<k": f"{vals.get('n', '')}::{vals.get('c', '')}<<{vals.get('k', '')}",
                    "n::c>>k": f"{vals.get('n', '')}::{vals.get('c', '')}>>{vals.get('k', '')}"}[form]
            got = table._split_name_count_offset(text)
            want = (vals.get("n", ""), int(vals["c"]) if "c" in form else None,
                    (-int(vals["k"]) if "<<" in form else int(vals["k"])) if "k" in form else 0)
            if got != want:
                ex.fail(f"_split_name_count_offset({text!r}) = {got!r}, documented meaning {want!r}", {"form": form})
            else:
                raise Inconclusive(f"cvc5 model for form {form} does not reproduce on the real function: {text!r} -> {got!r}")
            return
        else:
            ex.stats.unknown += 1
            raise Inconclusive(f"cvc5 answered {verdict!r} on form {form} path {pi}")
    if len(ex.samples) < 1:
        ex.samples.append({"lemma": form, "paths": len(paths), "name_len<=": case["maxname"]})


def _parse_values(txt):
    import re
    return {m.group(1): m.group(2).replace('""', '"') for m in re.finditer(r'\((\w+) "((?:[^"]|"")*)"\)', txt)}


def validate_translator(interp, table):
    """Push the repository's own test inputs through the encoding and the real function."""
    tests = ["example", "example::5", "example<<3", "example::5<<3", "example::5<<-3", "example<<-3",
             "example::10<<0", "example>>3", "example::5>>3", "example::5>>-3", "example>>-3", "example::0>>0",
             "a<<1>>2", "a>>1<<2", "a::1::2", "::", "<<", "a::b"]
    for s in tests:
        try:
            real = table._split_name_count_offset(s)
        except ValueError:
            real = ValueError
        paths = interp.run(z3.StringVal(s))
        taken = [(k, r) for k, r, pc in paths if z3.is_true(z3.simplify(z3.And(*pc))) or not pc]
        if len(taken) != 1:
            raise Unsupported(f"translator validation: {len(taken)} paths taken for {s!r}")
        name, count, offset = taken[0][1]

        def iv(x):
            if x is None or isinstance(x, int):
                return x
            tot = x.const
            for sg, t in x.terms:
                txt = z3.simplify(t).as_string()
                tot += sg * int(txt)
            return tot
        try:
            enc = (z3.simplify(name).as_string(), iv(count), iv(offset))
        except ValueError:
            enc = ValueError
        if enc != real:
            raise Unsupported(f"translator validation failed on {s!r}: encoding {enc!r}, real function {real!r}")

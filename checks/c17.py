"""C17 - a frozen manager's expression graph cannot change, values still propagate.

Real Manager code on symbolic contents.  Shape decisions: a short history
building the manager, freeze_tree(), up to two API calls while frozen, then
unfreeze_tree(), one more operation and a follow-up assignment.  Assertions:
  * a call that would add/replace/remove an expression or task raises ValueError
    and leaves definitions (tasks, dump), the supports of the four indices, every
    query answer and - by z3, for all values - every container cell unchanged;
  * a plain-value assignment to an undefined location while frozen satisfies the
    pull-model oracle of C01 (all dependants updated);
  * after unfreezing, the manager equals a twin that was never frozen and received
    only the successful calls: same definitions/indices/queries, and after one more
    operation on both plus a follow-up assignment of a fresh symbolic value to every
    location, equal contents for all values (z3).
"""
import z3

from symx.driver import get_xdeps
from symx.values import eq
from symx.core import Abort, Inconclusive
from . import universe as U
from . import c01, c03

ID = "C17"
LEVEL = "model_checking"
FUNCTIONS = [
    "tasks.py:Manager.freeze_tree", "tasks.py:Manager.unfreeze_tree", "tasks.py:Manager.register",
    "tasks.py:Manager.unregister", "tasks.py:Manager.set_value", "tasks.py:Manager.load",
    "tasks.py:Manager.copy_expr_from", "tasks.py:Manager.refresh", "tasks.py:Manager.cleanup",
    "tasks.py:Manager.clone", "tasks.py:Manager.verify", "tasks.py:Manager.find_tasks",
    "refs.py:MutableRef.__iadd__",
]
ASSUMPTIONS = c01.ASSUMPTIONS[:3] + [
    "the twin manager replays the same operations with the same symbolic values, minus freeze/unfreeze and the calls that raised",
]
BOUNDS = {
    "quick": "managers built by <=2 expression definitions over {a,b,n.x} (all 1-definition managers, chains and joins of 2); <=2 calls while frozen out of "
             "{value / expression / in-place (value, ref) assignment per location, register, unregister, load (overwrite on/off), copy_expr_from, refresh, verify, cleanup, clone}; "
             "1 operation after unfreezing + follow-up assignment to each location; plain-number mode: 3 value-type calls while frozen (value / += / whole-list replacement) whose values are the Python ints 1 / 2, on 3 managers over {a,l0,l1,n.x}",
    "thorough": "all managers of <=2 definitions over {a,b,n.x,l0}, <=3 calls while frozen (reduced call set for the third), both builds",
}
OUTSIDE = "more calls while frozen; FunctionTask/LinearKnob registration while frozen (register() path is the same)"
REQUIRED_CLASSES = ["frozen_rejected", "frozen_value_ok", "unfrozen_compared", "followup", "refresh_rejected", "plain_number_values"]
PROFILE_CASES = 4
TASKS_PER_CHILD = 30
LOCS = ["a", "b", "n.x"]


def frozen_calls(st, locs, value_only=False):
    """(call descriptor, changes_graph) for the current definitions."""
    out = []
    defs = st.defs
    if value_only:
        # value-type calls only (none of them changes the graph): plain assignments to undefined locations,
        # += value, and replacing the list as a whole (which changes its members by another route)
        for t in locs:
            if t not in defs:
                out.append((("val", t), False))
                out.append((("iadd", t), False))
        if not any(x in defs for x in ("l0", "l1", "l")):
            out.append((("replace", "l"), False))
        return out
    for i, t in enumerate(locs):
        out.append((("val", t), t in defs))
        if t.startswith("K-"):
            # members of the dict with hash-colliding keys are plain inputs only
            out.append((("iadd", t), False))
            continue
        cands = U.candidates(t, locs, False)
        dsc = cands[0]
        nd = dict(defs)
        nd[t] = dsc
        if not U.is_cyclic(nd):
            out.append((("expr", t, dsc), True))
            out.append((("load", t, dsc, True), True))
            out.append((("load", t, dsc, False), t not in defs))
            if t not in defs:
                out.append((("register", t, dsc), True))
        out.append((("iadd", t), t in defs))
        p = locs[(i + 1) % len(locs)]
        nd = dict(defs)
        nd[t] = ("sub", defs.get(t, ("const", 0)), ("loc", p))
        if not U.is_cyclic(nd):
            out.append((("isubref", t, p), True))
        if t in defs:
            out.append((("unreg", t), True))
    # refresh() regenerates the indices without adding/replacing/removing a definition:
    # it may refuse (ValueError) or succeed while frozen, but must not change anything
    out.append((("refresh",), "either"))
    out.append((("verify",), False))
    out.append((("cleanup",), False))
    out.append((("clone",), False))
    out.append((("copy_expr_from",), bool(defs)))
    return out


def do_call(st, call, other=None):
    k = call[0]
    if k == "refresh":
        st.m.refresh()
    elif k == "verify":
        st.m.verify()
    elif k == "cleanup":
        st.m.cleanup()
    elif k == "clone":
        st.m.clone()
    elif k == "copy_expr_from":
        st.m.copy_expr_from(other.m, "d")
    else:
        st.apply(call)


def full_state(st):
    if getattr(st, "plain", False):
        # long value-only sequences: definitions and index supports (the query sweep is made in the other cases)
        return {"snap": c03.snapshot(st.m, st.xd), "tasks": sorted(str(t) for t in st.m.tasks)}
    return {
        "snap": c03.snapshot(st.m, st.xd),
        "queries": c03.queries(st.m, st.r, None),
        "dump": sorted(map(tuple, st.m.dump())),
        "tasks": sorted(str(t) for t in st.m.tasks),
    }


def contents(st):
    return {L: U.getval(st.d, L) for L in U.ALL_LOCS}


def note(ex, k, n=1):
    ex.notes[k] = ex.notes.get(k, 0) + n


def oracle_ok(ex, st, what):
    for L in U.ALL_LOCS:
        cur = U.getval(st.d, L)
        exp = U.ev(st.defs[L], st.d, st.g) if L in st.defs else st.last[L]
        if not ex.prove(eq(cur, exp), f"{what}: location {L} != " + ("its definition" if L in st.defs else "last assigned value"),
                        {"history": list(st.hist)}):
            return False
    return True


def run_case(ex, case):
    locs = case["locs"]
    st = c03.HState(ex, case["build"])
    tw = c03.HState(ex, case["build"], init=st.init)
    tw.vals = st.vals
    if case.get("plain"):
        # plain-number mode (see c01.State.fresh): assigned values are the Python ints 1 / 2
        st.plain = tw.plain = True
        note(ex, "plain_number_values")

    def both(op):
        n0 = st.nv
        st.apply(op)
        tw.nv = n0
        tw.apply(op)
    for (t, dsc) in case["defs"]:
        both(("expr", t, c01._tup(dsc)))
    # a source manager for copy_expr_from: same definitions, other contents
    src = st.fork()
    st.m.freeze_tree()
    st.hist.append("freeze_tree()")
    for k in range(case["nfrozen"]):
        calls = frozen_calls(st, locs, case.get("plain"))
        i = case["first"] if k == 0 else ex.choose(len(calls) + 1)
        if i >= len(calls):
            break          # fewer calls while frozen
        call, changes = calls[i]
        before = full_state(st)
        cbefore = contents(st)
        defs_before, last_before, order_before = dict(st.defs), dict(st.last), list(st.order)
        n0, hist0, oplog0 = st.nv, list(st.hist), list(st.oplog)
        try:
            do_call(st, call, src)
            raised = None
        except (Abort, Inconclusive):
            raise
        except Exception as e:
            raised = e
        desc = st.hist[-1] if len(st.hist) > len(hist0) else str(call)
        if changes == "either":
            note(ex, "refresh_rejected")
            if raised is not None and not isinstance(raised, ValueError):
                ex.fail(f"frozen: `{desc}` raised {type(raised).__name__}: {raised}", {"history": hist0 + [desc]})
                return
            changes = raised is not None
            if not changes:
                st.hist = hist0 + [desc]
        if changes:
            note(ex, "frozen_rejected")
            if not isinstance(raised, ValueError):
                ex.fail(f"frozen: `{desc}` would change the graph but "
                        + (f"raised {type(raised).__name__}: {raised}" if raised else "did not raise"),
                        {"history": hist0 + [desc]})
                return
            # restore the oracle's bookkeeping (the call must have had no effect)
            st.defs, st.last, st.order, st.oplog = defs_before, last_before, order_before, oplog0
            st.hist = hist0 + [desc + " -> ValueError"]
            after = full_state(st)
            if after != before:
                bad = [k2 for k2 in after if after[k2] != before[k2]]
                ex.fail(f"frozen: `{desc}` raised ValueError but changed {bad}", {"history": list(st.hist)})
                return
            cafter = contents(st)
            for L in U.ALL_LOCS:
                if not ex.prove(eq(cafter[L], cbefore[L]), f"frozen: `{desc}` raised ValueError but changed the data at {L}",
                                {"history": list(st.hist)}):
                    return
        else:
            if raised is not None:
                ex.fail(f"frozen: `{desc}` does not change the graph but raised {type(raised).__name__}: {raised}",
                        {"history": hist0 + [desc]})
                return
            after = full_state(st)
            if after != before:
                bad = [k2 for k2 in after if after[k2] != before[k2]]
                ex.fail(f"frozen: `{desc}` changed {bad}", {"history": list(st.hist)})
                return
            if call[0] in ("val", "iadd", "replace"):
                note(ex, "frozen_value_ok")
                if not oracle_ok(ex, st, f"frozen: after `{desc}`"):
                    return
                tw.nv = n0
                tw.apply(call)
            elif call[0] == "load":
                st.defs, st.order = defs_before, order_before
    st.m.unfreeze_tree()
    st.hist.append("unfreeze_tree()")
    note(ex, "unfrozen_compared")
    a, b = full_state(st), full_state(tw)
    if a != b:
        bad = [k2 for k2 in a if a[k2] != b[k2]]
        ex.fail(f"after unfreeze_tree() {bad} differ from a never-frozen twin", {"history": list(st.hist)})
        return
    # one more operation on both, then a follow-up assignment to every location
    ops = [o for o in c03.list_ops(st.defs, locs) if not str(o[1]).startswith("K-")]
    ops = [o for o in ops if not (o[0] == "loadn" and len(o) > 2)]      # the overwrite=False variant is C03's subject
    if case.get("plain"):
        ops = ops[:1]          # the long frozen phase is the subject here; one fixed operation after unfreezing
    op = ops[ex.choose(len(ops))]
    outs = []
    n0 = st.nv
    for w in (st, tw):
        w.nv = n0
        try:
            w.apply(op)
            outs.append(None)
        except (Abort, Inconclusive):
            raise
        except Exception as e:
            outs.append(e)
    if (outs[0] is None) != (outs[1] is None):
        ex.fail(f"after unfreeze_tree(): `{st.hist[-1]}` behaves differently from a never-frozen twin: {outs}",
                {"history": list(st.hist)})
        return
    if outs[0] is not None:
        return
    a, b = full_state(st), full_state(tw)
    if a != b:
        bad = [k2 for k2 in a if a[k2] != b[k2]]
        ex.fail(f"after unfreeze_tree() and `{st.hist[-1]}`: {bad} differ from a never-frozen twin", {"history": list(st.hist)})
        return
    for L in (locs[:1] if case.get("plain") else locs):
        note(ex, "followup")
        v = ex.int(f"fu_{L}")
        for w in (st, tw):
            U.assign(w.r, L, v)
            w.defs.pop(L, None)
            w.last[L] = v
        for M in U.ALL_LOCS:
            if not ex.prove(eq(U.getval(st.d, M), U.getval(tw.d, M)),
                            f"after unfreeze_tree(): follow-up assignment to {L} leaves {M} different from a never-frozen twin",
                            {"history": list(st.hist), "assigned": L}):
                return
        # register()/load() install a definition without evaluating it, so the pull-model
        # oracle applies only when the graph was edited through assignments
        if op[0] not in ("register", "load", "loadn") and not oracle_ok(ex, st, f"after unfreeze_tree() and assignment to {L}"):
            return
    if len(ex.samples) < 2:
        ex.samples.append({"history": list(st.hist)})


def managers(locs, ndefs):
    import itertools
    cand = [(t, dsc) for t in locs for dsc in U.candidates(t, locs, False)]
    out = [[]]
    for k in range(1, ndefs + 1):
        for combo in itertools.permutations(cand, k):
            if len({t for t, _ in combo}) < k or U.is_cyclic(dict(combo)):
                continue
            out.append([list(c) for c in combo])
    return out


def cases(tier):
    out = []
    if tier == "quick":
        ms = managers(LOCS, 1)[::2] + [m for m in managers(LOCS, 2) if len(m) == 2][::15]
        for m in ms:
            st_defs = {t: c01._tup(d) for t, d in m}
            n = len(_calls_for(st_defs, LOCS))
            for i in range(n):
                out.append({"build": "pure", "locs": LOCS, "defs": m, "nfrozen": 2, "first": i})
        # inputs with hash-colliding keys (-1 / -2) and different dependants
        KL = ["a", "b", "K-1", "K-2"]
        for m in ([["a", ["mul", ["loc", "K-1"], ["const", 2]]], ["b", ["add", ["loc", "K-2"], ["const", 1]]]],
                  [["b", ["sub", ["loc", "K-1"], ["loc", "a"]]]]):
            st_defs = {t: c01._tup(d) for t, d in m}
            n = len(_calls_for(st_defs, KL))
            for i in range(n):
                out.append({"build": "pure", "locs": KL, "defs": m, "nfrozen": 2, "first": i})
        # three value-type calls while frozen, with plain Python numbers as values
        PL = ["a", "l0", "l1", "n.x"]
        for m in ([["b", ["mul", ["loc", "l0"], ["const", 2]]]],
                  [["b", ["add", ["loc", "l0"], ["loc", "l1"]]], ["c", ["neg", ["loc", "a"]]]],
                  [["b", ["add", ["loc", "n.x"], ["loc", "a"]]], ["c", ["mul", ["loc", "b"], ["const", 2]]]]):
            for i in range(9):
                out.append({"build": "pure", "locs": PL, "defs": m, "nfrozen": 3, "first": i, "plain": True})
    else:
        L4 = ["a", "b", "n.x", "l0"]
        for b in ("pure", "compiled"):
            for m in managers(L4 if b == "pure" else LOCS, 2):
                st_defs = {t: c01._tup(d) for t, d in m}
                n = len(_calls_for(st_defs, L4 if b == "pure" else LOCS))
                for i in range(n):
                    out.append({"build": b, "locs": L4 if b == "pure" else LOCS, "defs": m, "nfrozen": 2, "first": i})
    return out


class _Fake:
    def __init__(self, defs):
        self.defs = defs


def _calls_for(defs, locs):
    return frozen_calls(_Fake(defs), locs)

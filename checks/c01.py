"""C01 - expression-defined locations always equal their definition.

Symbolic execution of the real Manager.set_value / register / unregister /
find_tasks / toposort / ExprTask.run / refs.py operator and in-place code on
symbolic container contents; after every operation z3 proves, for all values,
that every location equals the pull-model oracle (written here, independent of
xdeps).  Shapes (which operation comes next) are engine decisions.
"""
import z3

from symx.driver import get_xdeps
from symx.values import eq, tobool
from . import universe as U

ID = "C01"
LEVEL = "model_checking"
FUNCTIONS = [
    "tasks.py:Manager.set_value", "tasks.py:Manager.register", "tasks.py:Manager.unregister",
    "tasks.py:Manager.find_tasks", "tasks.py:Manager.find_taskids", "tasks.py:Manager.run_tasks",
    "tasks.py:ExprTask.__init__", "tasks.py:ExprTask.run", "sorting.py:toposort", "sorting.py:_dfs",
    "refs.py:MutableRef._get_dependencies", "refs.py:MutableRef.__iadd__", "refs.py:MutableRef.__isub__",
    "refs.py:MutableRef.__setitem__", "refs.py:MutableRef.__setattr__", "refs.py:ItemRef._set_value",
    "refs.py:AttrRef._set_value", "refs.py:AddExpr._get_value", "refs.py:CallRef._get_value",
    "refs.py:MutableRef._expr",
]
ASSUMPTIONS = [
    "container contents and assigned values are Python ints (z3 Int, exact); operator semantics on other types is C04's subject",
    "user function f.g is an uninterpreted function (any deterministic function)",
    "keys, attribute names and expression shapes are concrete per path (explored as decisions)",
    "excluded as in the property: mutation behind the manager, replacing a container that holds a defined member",
    "known finding C01-false-cycle: a violation whose stale location's task lies on a cycle of the ordering graph that the harness derives from its own descriptors of the current definitions by the library's structural rule (a task targets and reads the containers enclosing its locations); the data flow being acyclic, such a cycle exists only through container-level overlap; it is matched by signature",
]
BOUNDS = {
    "quick": "four prefixes (computed-key reads l[abs(b)%2]; the list l defined as a whole with readers inside) followed by <=2 operations over {a,b,c,l0,l1}; histories of 5 operations over {a,b,c} with a reduced operation set (value / 2 expression shapes / unregister); histories of <=3 operations over {a,b,n.x,l0} (one member per nested container) and <=3 over {n.x,n.y,n.z} (siblings); "
             "inductive step: every set of <=2 definitions over {a,b,n.x,l0,l1} registered in every order, then one arbitrary operation; "
             "plain-number mode: histories of 3 value-type operations (value / += / whole-list replacement) whose values are the Python ints 1 / 2 (engine decisions) on 3 managers; "
             "re-definition sequences: every sequence of 3 definitions over {a,b,c} (3 shapes per target) in which a target is defined again, then one arbitrary operation, under every iteration order of the start set; "
             "chains/fans of 1200..3000 tasks with symbolic head (pure build)",
    "thorough": "the 5-operation histories on the compiled build; histories <=4 over {a,b,n.x,l0}, <=3 over {a,b,c,n.x,l0,l1} and {a,b,n.x,n.y,n.z}; inductive step with <=3 definitions; "
                "chains/fans up to 5000 tasks; both builds",
}
OUTSIDE = "longer histories (covered only through the inductive step + C03 history independence), floats, more than 6 locations"
REQUIRED_CLASSES = ["step_checked", "inplace_on_expr", "unregister", "chain", "redefinition_sequence", "plain_number_values"]
SIGNATURES = {
    "false_cycle": lambda cj, case: bool((cj.get("detail") or {}).get("false_cycle_through_loc")),
}
PROFILE_CASES = 3
TASKS_PER_CHILD = 20


def list_ops(defs, locs, rich=False):
    ops = []
    for i, t in enumerate(locs):
        ops.append(("val", t))
        for dsc in U.candidates(t, locs, rich):
            nd = dict(defs)
            nd[t] = dsc
            if not U.is_cyclic(nd):
                ops.append(("expr", t, dsc))
        ops.append(("iadd", t))
        p = locs[(i + 1) % len(locs)]
        nd = dict(defs)
        nd[t] = ("sub", defs.get(t, ("const", 0)), ("loc", p))
        if not U.is_cyclic(nd):
            ops.append(("isubref", t, p))
        if t in defs:
            ops.append(("unreg", t))
            ops.append(("same", t))
    c = None
    # replacing a whole container is allowed when none of its members is defined
    for cont, members in (("l", ["l0", "l1"]),):
        if any(m in locs for m in members) and not any(m in defs for m in members):
            ops.append(("replace", cont))
    return ops


def list_ops_reduced(defs, locs):
    """value / two expression shapes / unregister per location (long histories)"""
    ops = []
    for i, t in enumerate(locs):
        ops.append(("val", t))
        others = [x for x in locs if x != t]
        cands = [("add", ("loc", others[0]), ("const", 1)), ("mul", ("loc", others[-1]), ("const", 2))]
        for dsc in cands:
            nd = dict(defs)
            nd[t] = dsc
            if not U.is_cyclic(nd):
                ops.append(("expr", t, dsc))
        if t in defs:
            ops.append(("unreg", t))
            ops.append(("same", t))
    return ops


class State:
    def __init__(self, ex, build, nd=None):
        xd = get_xdeps(build, nd) if nd else get_xdeps(build)
        self.xd = xd
        self.ex = ex
        self.m = xd.Manager()
        self.d = U.make_contents(ex)
        self.g = ex.func("g", 2)
        self.r = self.m.ref(self.d, "d")
        self.fr = self.m.ref(U.FContainer(self.g), "f")
        self.defs = {}
        self.last = {L: U.getval(self.d, L) for L in U.ALL_LOCS}
        self.hist = []
        self.nv = 0

    plain = False

    def fresh(self):
        self.nv += 1
        if self.plain:
            # plain-number mode: the assigned value is a Python int (1 or 2, an engine decision), so that code
            # gated on concrete number types (isinstance(value, (int, float))) and on "the same number as last
            # time" runs; container contents and definitions stay symbolic
            return 1 + self.ex.choose(2)
        return self.ex.int(f"v{self.nv}")

    def apply(self, op):
        ex, r, d = self.ex, self.r, self.d
        kind = op[0]
        self.hist.append(_show_op(op))
        if kind == "val":
            v = self.fresh()
            U.assign(r, op[1], v)
            self.defs.pop(op[1], None)
            self.last[op[1]] = v
        elif kind == "expr":
            U.assign(r, op[1], U.build(op[2], r, self.fr))
            self.defs[op[1]] = op[2]
        elif kind == "iadd":
            v = self.fresh()
            t = op[1]
            cur = U.getval(d, t)
            U.assign(r, t, U.getref(r, t).__iadd__(v))
            if t in self.defs:
                self.defs[t] = ("add", self.defs[t], ("const", v))
                ex.notes["inplace_on_expr"] = ex.notes.get("inplace_on_expr", 0) + 1
            else:
                self.last[t] = cur + v
        elif kind == "isubref":
            t, p = op[1], op[2]
            old = self.defs.get(t, ("const", U.getval(d, t)))
            ref = U.getref(r, t)
            U.assign(r, t, ref.__isub__(U.getref(r, p)))
            self.defs[t] = ("sub", old, ("loc", p))
            if old[0] != "const":
                ex.notes["inplace_on_expr"] = ex.notes.get("inplace_on_expr", 0) + 1
        elif kind == "unreg":
            t = op[1]
            self.m.unregister(U.getref(r, t))
            del self.defs[t]
            self.last[t] = U.getval(d, t)
            ex.notes["unregister"] = ex.notes.get("unregister", 0) + 1
        elif kind == "same":
            # freeze idiom: the location is assigned the very object it currently holds
            t = op[1]
            v = U.getval(d, t)
            U.assign(r, t, v)
            del self.defs[t]
            self.last[t] = v
            ex.notes["freeze_same_object"] = ex.notes.get("freeze_same_object", 0) + 1
        elif kind == "replace":
            v0, v1 = self.fresh(), self.fresh()
            r["l"] = [v0, v1]
            self.last["l0"], self.last["l1"] = v0, v1
        else:
            raise ValueError(kind)

    def check(self, step):
        ex = self.ex
        ex.notes["step_checked"] = ex.notes.get("step_checked", 0) + 1
        for L in U.ALL_LOCS:
            cur = U.getval(self.d, L)
            if L in self.defs:
                exp = U.ev(self.defs[L], self.d, self.g)
            elif L in ("l0", "l1") and "l" in self.defs:
                exp = U.ev(self.defs["l"], self.d, self.g)[int(L[1])]      # the list as a whole is defined
            else:
                exp = self.last[L]
            ok = ex.prove(eq(cur, exp), what=f"location {L} != " + ("its definition" if L in self.defs else "last assigned value"))
            if not ok:
                if ex.mode == "sym":
                    cyc = U.false_cycle_locs(self.defs)
                    ex.cexs[-1].detail = {
                        "history": list(self.hist), "loc": L, "step": step,
                        "definitions": {k: U.show(v) for k, v in self.defs.items()},
                        "false_cycle_tasks": cyc,
                        "false_cycle_through_loc": (L in cyc),
                    }
                return False
        return True


def _refname(L):
    if L.startswith("K-"):
        return f"K[{L[1:]}]"
    if L.startswith("n."):
        return f"d['n'].{L[2:]}"
    if U.container_of(L) == "l":
        return f"d['l'][{L[1]}]"
    return f"d['{L}']"


def _show_op(op):
    if op[0] == "expr":
        return f"{op[1]} = {U.show(op[2])}"
    if op[0] == "val":
        return f"{op[1]} = <value>"
    if op[0] == "iadd":
        return f"{op[1]} += <value>"
    if op[0] == "isubref":
        return f"{op[1]} -= ref({op[2]})"
    if op[0] == "unreg":
        return f"unregister({op[1]})"
    if op[0] == "same":
        return f"{op[1]} = <the object it holds>"
    return f"{op[0]} {op[1]}"


EXPECTED_EXC = ()


def run_history(ex, case):
    st = State(ex, case["build"])
    st.plain = bool(case.get("plain"))
    if st.plain:
        ex.notes["plain_number_values"] = ex.notes.get("plain_number_values", 0) + 1
    locs = case["locs"]
    for op in case.get("prefix", []):
        st.apply(_tup(op))
    if case.get("prefix") and not st.check(-1):
        return
    for k in range(case["K"]):
        ops = list_ops_reduced(st.defs, locs) if case.get("reduced") else list_ops(st.defs, locs, case.get("rich", False))
        if case.get("value_ops_only"):
            ops = [o for o in ops if o[0] in ("val", "replace", "iadd", "same")]
        if "l" in st.defs:
            # excluded by the property: a container that is overwritten as a whole holding an expression-defined member
            ops = [o for o in ops if not (o[1] in ("l0", "l1") and o[0] in ("expr", "isubref", "iadd", "val")) and o[0] != "replace"]
        if k == 1 and case.get("second") is not None:
            i = case["second"]
        else:
            i = case["first"] if k == 0 else ex.choose(len(ops))
        if i >= len(ops):
            return
        try:
            st.apply(ops[i])
        except Exception as e:
            ex.fail(f"unexpected {type(e).__name__} during {st.hist[-1]}: {e}", {"history": list(st.hist)})
            return
        if not st.check(k):
            return
    if len(ex.samples) < 2:
        ex.samples.append({"history": list(st.hist), "locs": locs})


def run_inductive(ex, case):
    """Arbitrary reachable state (defs registered in a given order, contents
    consistent with them) followed by one arbitrary operation."""
    st = State(ex, case["build"])
    locs = case["locs"]
    for (t, dsc) in case["defs"]:
        dsc = _tup(dsc)
        try:
            U.assign(st.r, t, U.build(dsc, st.r, st.fr))
        except Exception as e:
            ex.fail(f"unexpected {type(e).__name__} registering {t} = {U.show(dsc)}: {e}")
            return
        st.defs[t] = dsc
        st.hist.append(f"{t} = {U.show(dsc)}")
    if not st.check(-1):
        return
    ops = list_ops(st.defs, locs, True)
    op = ops[ex.choose(len(ops))]
    try:
        st.apply(op)
    except Exception as e:
        ex.fail(f"unexpected {type(e).__name__} during {st.hist[-1]}: {e}", {"history": list(st.hist)})
        return
    st.check(0)
    if len(ex.samples) < 2:
        ex.samples.append({"registered": st.hist[:-1], "then": st.hist[-1]})


def run_redef(ex, case):
    """A sequence of definitions in which a target may be defined again (with other inputs), the state being
    checked after each, followed by one arbitrary operation.  tasks.py is loaded with find_taskids' start set
    as an NDSet, so every iteration order of the start set is explored (the order in which the start tasks
    are visited decides which stale edge of a re-defined task, if any, is followed first)."""
    st = State(ex, case["build"], nd="start_set_only")
    locs = case["locs"]
    for k, (t, dsc) in enumerate(case["defs"]):
        try:
            st.apply(("expr", t, _tup(dsc)))
        except Exception as e:
            ex.fail(f"unexpected {type(e).__name__} during {st.hist[-1]}: {e}", {"history": list(st.hist)})
            return
        if not st.check(k - len(case["defs"])):
            return
    ex.notes["redefinition_sequence"] = ex.notes.get("redefinition_sequence", 0) + 1
    ops = list_ops(st.defs, locs, False)
    op = ops[ex.choose(len(ops))]
    try:
        st.apply(op)
    except Exception as e:
        ex.fail(f"unexpected {type(e).__name__} during {st.hist[-1]}: {e}", {"history": list(st.hist)})
        return
    st.check(0)
    if len(ex.samples) < 2:
        ex.samples.append({"definitions": st.hist[:-1], "then": st.hist[-1]})


def _redef_cases(build, locs, n):
    """sequences of n definitions over locs in which at least one target is defined twice; every prefix acyclic"""
    import itertools
    cand = [(t, dsc) for t in locs for dsc in U.candidates(t, locs, False)]
    out = []
    for seq in itertools.product(cand, repeat=n):
        ts = [t for t, _ in seq]
        if len(set(ts)) == n:
            continue                      # no re-definition: covered by the inductive cases
        defs, ok = {}, True
        for t, dsc in seq:
            if defs.get(t) == dsc:
                ok = False
                break
            defs[t] = dsc
            if U.is_cyclic(defs):
                ok = False
                break
        if ok:
            out.append({"mode": "redef", "build": build, "locs": locs, "defs": [list(c) for c in seq]})
    return out


def _tup(x):
    return tuple(_tup(i) for i in x) if isinstance(x, (list, tuple)) else x


def run_chain(ex, case):
    """Depth clause: n chained (or fanned) tasks, symbolic head value."""
    xd = get_xdeps(case["build"])
    n = case["n"]
    m = xd.Manager()
    d = {f"v{i}": 0 for i in range(n + 1)}
    r = m.ref(d, "d")
    ExprTask = xd.tasks.ExprTask
    try:
        if case["shape"] == "chain":
            order = range(n) if case["order"] == "fwd" else range(n - 1, -1, -1)
            for i in order:
                if case["order"] == "fwd":
                    r[f"v{i + 1}"] = r[f"v{i}"] + 1
                else:
                    m.register(ExprTask(r[f"v{i + 1}"], r[f"v{i}"] + 1))
        else:
            for i in range(1, n + 1):
                r[f"v{i}"] = r["v0"] + i
        h = ex.int("head")
        r["v0"] = h
    except Exception as e:
        ex.fail(f"unexpected {type(e).__name__} with {n} {case['shape']} tasks: {str(e)[:80]}")
        return
    ex.notes["chain"] = ex.notes.get("chain", 0) + 1
    ok = ex.prove(eq(d[f"v{n}"], h + n), f"tail of {case['shape']} of {n} tasks != head + {n}")
    ok = ok and ex.prove(eq(d[f"v{n // 2}"], h + n // 2), "middle of chain stale")
    if len(ex.samples) < 1:
        ex.samples.append({"shape": case["shape"], "n": n, "order": case["order"]})


def run_case(ex, case):
    return {"history": run_history, "inductive": run_inductive, "chain": run_chain, "redef": run_redef}[case["mode"]](ex, case)


def _hist_cases(build, locs, K, rich=False):
    n0 = len(list_ops({}, locs, rich))
    return [{"mode": "history", "build": build, "locs": locs, "K": K, "first": i, "rich": rich} for i in range(n0)]


def _inductive_cases(build, locs, ndefs):
    import itertools
    out = []
    cand = [(t, dsc) for t in locs for dsc in U.candidates(t, locs, False)]
    for k in range(1, ndefs + 1):
        for combo in itertools.permutations(cand, k):
            ts = [t for t, _ in combo]
            if len(set(ts)) < k:
                continue
            if U.is_cyclic(dict(combo)):
                continue
            out.append({"mode": "inductive", "build": build, "locs": locs, "defs": [list(c) for c in combo]})
    return out


def _plain_cases(build, K):
    """value-type operations (value / += value / whole-list replacement / the object it holds) with plain
    Python numbers 1 / 2 as values, on managers whose definitions read the locations that are assigned"""
    out = []
    locs = ["a", "l0", "l1", "n.x"]
    for pf in ([["expr", "b", ["mul", ["loc", "l0"], ["const", 2]]]],
               [["expr", "b", ["add", ["loc", "l0"], ["loc", "l1"]]], ["expr", "c", ["neg", ["loc", "a"]]]],
               [["expr", "b", ["add", ["loc", "n.x"], ["loc", "a"]]], ["expr", "c", ["mul", ["loc", "b"], ["const", 2]]]]):
        for first in range(10):
            out.append({"mode": "history", "build": build, "locs": locs, "K": K, "first": first, "prefix": pf, "plain": True, "value_ops_only": True})
    return out


PREFIXES = [
    [["expr", "a", ["lidx", ["mod", ["abs", ["loc", "b"]], ["const", 2]]]]],
    [["expr", "c", ["add", ["lidx", ["mod", ["abs", ["loc", "b"]], ["const", 2]]], ["loc", "a"]]]],
    [["expr", "l", ["pair", ["loc", "a"]]], ["expr", "b", ["add", ["loc", "l1"], ["const", 1]]]],
    [["expr", "b", ["mul", ["loc", "l0"], ["const", 2]]], ["expr", "l", ["pair", ["loc", "c"]]]],
    # an item of a computed sub-expression: pair(b * 2)[1], and below another operator
    [["expr", "a", ["pidx", ["mul", ["loc", "b"], ["const", 2]], 1]]],
    [["expr", "c", ["add", ["pidx", ["loc", "b"], 0], ["pidx", ["neg", ["loc", "a"]], 1]]]],
]


def cases(tier):
    flat = ["a", "b", "n.x", "l0"]
    sib = ["n.x", "n.y", "n.z"]
    cs = []
    if tier == "quick":
        # long histories over three flat locations with a reduced operation set
        for f1 in range(9):
            for f2 in range(12):
                cs.append({"mode": "history", "build": "pure", "locs": ["a", "b", "c"], "K": 5, "first": f1, "second": f2, "reduced": True})
        cs += _hist_cases("pure", flat, 3)
        cs += _hist_cases("pure", sib, 3)
        for pf in PREFIXES:
            for c in _hist_cases("pure", ["a", "b", "c", "l0", "l1"], 2):
                cs.append(dict(c, prefix=pf))
        cs += _inductive_cases("pure", ["a", "b", "n.x", "l0", "l1"], 2)
        cs += _redef_cases("pure", ["a", "b", "c"], 3)
        cs += _plain_cases("pure", 3)
        cs += [{"mode": "chain", "build": "pure", "shape": "chain", "order": "fwd", "n": 3000},
               {"mode": "chain", "build": "pure", "shape": "chain", "order": "rev", "n": 1200},
               {"mode": "chain", "build": "pure", "shape": "fan", "order": "fwd", "n": 3000}]
    else:
        for f1 in range(9):
            for f2 in range(12):
                cs.append({"mode": "history", "build": "compiled", "locs": ["a", "b", "c"], "K": 5, "first": f1, "second": f2, "reduced": True})
        for b in ("pure", "compiled"):
            cs += _hist_cases(b, flat, 4 if b == "pure" else 3)
            cs += _hist_cases(b, ["a", "b", "c", "n.x", "l0", "l1"], 3)
            cs += _hist_cases(b, ["a", "b", "n.x", "n.y", "n.z"], 3)
            cs += _inductive_cases(b, ["a", "b", "n.x", "l0", "l1"], 3 if b == "pure" else 2)
            cs += _redef_cases(b, ["a", "b", "c"], 3)
            if b == "pure":
                cs += _redef_cases(b, ["a", "b", "n.x"], 3) + _redef_cases(b, ["a", "b", "c"], 4)
            cs += [{"mode": "chain", "build": b, "shape": "chain", "order": "fwd", "n": 5000},
                   {"mode": "chain", "build": b, "shape": "chain", "order": "rev", "n": 2000},
                   {"mode": "chain", "build": b, "shape": "fan", "order": "fwd", "n": 5000}]
    return cs

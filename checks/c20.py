"""C20 - results do not depend on the build (compiled / pure Python) or the hash seed.

Programs of manager operations (histories over the shared universe, with nested
builtin / call shapes, in-place operators, unregister, load, dump, pickle, printed
text of every expression) are executed SYMBOLICALLY (contents = z3 Ints, user
function uninterpreted) and each path emits a transcript: the final contents as
SMT terms, the definitions (dump text), dependency sets and exception types.
  Build:  the same program, same decision prefix, runs (1) in the extension
          freshly compiled from the current refs.py and (2) with refs.py as plain
          Python; transcripts must be identical; where the term texts differ z3 is
          asked to prove the paired terms equal for all values.
  Seed:   in the pure build every set()/set display/set comprehension of refs.py,
          tasks.py and sorting.py becomes an NDSet (load-time AST pass): every
          iteration order is explored - a superset of every PYTHONHASHSEED - and
          all orders of one program must give the same transcript.  In the
          compiled build the seed is a process-level configuration: seeds 0..7 run
          a concrete corpus in separate processes (configuration enumeration, not a
          solver result; labelled so).
"""
import itertools
import json
import os
import pickle
import subprocess
import sys
import time

import z3

from symx.driver import get_xdeps
from symx.values import SymInt, eq
from symx.core import Abort, Inconclusive
from . import universe as U
from . import c01, c03

ID = "C20"
LEVEL = "model_checking"
FUNCTIONS = [
    "refs.py:BaseRef.__init__", "refs.py:MutableRef.__setattr__", "refs.py:MutableRef.__cinit__", "refs.py:BuiltinRef._get_dependencies",
    "refs.py:BinOpExpr._get_dependencies", "tasks.py:Manager.find_taskids", "tasks.py:Manager.register", "tasks.py:Manager.unregister",
    "tasks.py:Manager.dump", "sorting.py:toposort",
]
ASSUMPTIONS = [
    "universe with one member per nested container (results inside a false ordering cycle depend on iteration order by the open finding C01-false-cycle)",
    "compiled-build hash seeds are enumerated configurations (PYTHONHASHSEED 0..7 in separate processes on a concrete corpus), not a solver verdict",
    "every iteration order of find_taskids' start set and three representative orders (sorted, reversed, rotated) of every other set created by refs.py/tasks.py/sorting.py are explored, one decision per distinct set content per path",
    "other Python / Cython versions are outside",
]
BOUNDS = {
    "quick": "programs: every first operation x one further operation over {a,b,c,n.x,l0} with the rich expression family (abs/neg/mul/add/sub/call and nested builtin+binary shapes) ending with a fresh assignment to every location; programs starting with a definition through a second top-level container that customises reads or writes (defaultdict with a missing key, dict / list subclasses overriding __getitem__ / __setitem__, an object with __getattr__ / __setattr__, AttrDict), side log of the container methods in the transcript; "
             "both builds on every program; all set orders (NDSet) on programs of <=2 operations; compiled build seeds 0..7 on a 40-program concrete corpus",
    "thorough": "programs of 3 operations, seeds 0..31",
}
OUTSIDE = "other interpreter versions; universes with false ordering cycles"
REQUIRED_CLASSES = ["build_pairs_equal", "orders_equal", "seed_processes", "customised_containers"]
PROFILE_CASES = 0
TASKS_PER_CHILD = 20
LOCS = ["a", "b", "c", "n.x", "l0"]

NESTED = [
    lambda p, q: ("add", ("abs", ("loc", p)), ("loc", q)),
    lambda p, q: ("sub", ("loc", q), ("abs", ("mul", ("loc", p), ("const", -2)))),
    lambda p, q: ("call", ("abs", ("loc", p)), ("neg", ("loc", q))),
    lambda p, q: ("add", ("neg", ("loc", p)), ("mul", ("loc", q), ("const", 3))),
]


def list_ops(defs, locs):
    ops = [o for o in c01.list_ops(defs, locs, False) if o[0] != "replace"]
    for i, t in enumerate(locs):
        others = [x for x in locs if x != t]
        for k, mk in enumerate(NESTED):
            p, q = others[k % len(others)], others[(k + 1) % len(others)]
            dsc = mk(p, q)
            nd = dict(defs)
            nd[t] = dsc
            if not U.is_cyclic(nd):
                ops.append(("expr", t, dsc))
    # keys that cannot be hashed / unusual key types: both builds must agree on the exception
    for t in locs[:2]:
        for kind in ("listkey", "dictkey", "setkey", "listkey_target"):
            ops.append(("weird", t, kind))
    # fixed-width integer keys (numpy scalars) on item refs: accepted keys, the program goes on
    for t in locs[:2]:
        for kind in NPKINDS:
            ops.append(("npkey", t, kind))
    for kind in CONTKINDS:
        ops.append(("cont", "a", kind))
    return ops


# (two definitions writing one slot through differently spelled keys, l[0] and l[np.int64(0)], are
# left out: they are two independent tasks with the same effect location, their relative order is
# unspecified in either build)
NPKINDS = ("int64_target", "int32_target", "int64_read", "uint8_read", "npstr_target", "npstr_read")


def _npkey(st, op):
    import numpy as np
    t, kind = op[1], op[2]
    st.hist.append(f"npkey {kind} <-> {t}")
    l = st.r["l"]
    src = U.getref(st.r, t)
    if kind == "int64_target":
        l[np.int64(0)] = src * 2
        st.defs["l0"] = ("mul", ("loc", t), ("const", 2))
        st.np_defined = ("l0",)
    elif kind == "int32_target":
        l[np.int32(1)] = src * 2
        st.defs["l1"] = ("mul", ("loc", t), ("const", 2))
        st.np_defined = ("l1",)
    elif kind == "int64_read":
        U.assign(st.r, t, l[np.int64(1)] + 1)
        st.defs[t] = ("add", ("loc", "l1"), ("const", 1))
    elif kind == "uint8_read":
        U.assign(st.r, t, l[np.uint8(0)] + 1)
        st.defs[t] = ("add", ("loc", "l0"), ("const", 1))
    elif kind == "npstr_target":
        # str-subclass keys (names read out of a numpy string array)
        other = "c" if t != "c" else "b"
        st.r[np.str_(other)] = src * 2
        st.defs[other] = ("mul", ("loc", t), ("const", 2))
        st.np_defined = (other,)
        st.np_avoid_reads = (other,)
    elif kind == "npstr_read":
        other = "c" if t != "c" else "b"
        U.assign(st.r, t, st.r[np.str_(other)] + 1)
        st.defs[t] = ("add", ("loc", other), ("const", 1))
        st.np_defined = (other,)
    else:
        raise ValueError(kind)
    st.ex.notes["numpy_keys"] = st.ex.notes.get("numpy_keys", 0) + 1


CONTKINDS = ("dd_read_missing", "dictsub_read", "dictsub_write", "listsub_read", "listsub_write", "objsub_getattr", "objsub_setattr", "attrdict_read")


class _Side:
    """side log of the customised container methods (part of the transcript)"""
    log = None


class UpDict(dict):
    """dict subclass customising reads and writes"""

    def __getitem__(self, k):
        _Side.log.append(("get", k))
        return dict.__getitem__(self, str(k).lower())

    def __setitem__(self, k, v):
        _Side.log.append(("set", k))
        dict.__setitem__(self, str(k).lower(), v)


class WrapList(list):
    """list subclass whose indices wrap around"""

    def __getitem__(self, i):
        _Side.log.append(("get", i))
        return list.__getitem__(self, i % len(self))

    def __setitem__(self, i, v):
        _Side.log.append(("set", i))
        list.__setitem__(self, i % len(self), v)


class FallbackObj:
    """object answering unknown attributes, logging writes"""

    def __init__(self, **kw):
        self.__dict__.update(kw)

    def __getattr__(self, k):
        if k.startswith("_"):
            raise AttributeError(k)
        _Side.log.append(("getattr", k))
        return 7

    def __setattr__(self, k, v):
        _Side.log.append(("setattr", k))
        object.__setattr__(self, k, v)


def _cont(st, op):
    """a second top-level container of a kind that customises reads or writes (what MadxEnv registers for its
    variables is a defaultdict): both builds must go through the container's own methods"""
    import collections
    t, kind = op[1], op[2]
    st.hist.append(f"container {kind} <-> {t}")
    _Side.log = st.side = []
    src = U.getref(st.r, t)
    sv = U.getval(st.d, t)
    m = st.m
    if kind == "dd_read_missing":
        c = collections.defaultdict(lambda: 0)
        v = m.ref(c, "v")
        v["out"] = v["never_assigned"] + src
    elif kind == "dictsub_read":
        c = UpDict()
        dict.__setitem__(c, "k", sv)
        v = m.ref(c, "v")
        st.r["c" if t != "c" else "b"] = v["K"] + 1
    elif kind == "dictsub_write":
        c = UpDict()
        v = m.ref(c, "v")
        v["OUT"] = src * 2
    elif kind == "listsub_read":
        c = WrapList([sv, 5])
        v = m.ref(c, "v")
        st.r["c" if t != "c" else "b"] = v[3] + 1
    elif kind == "listsub_write":
        c = WrapList([0, 0])
        v = m.ref(c, "v")
        v[5] = src * 2
    elif kind == "objsub_getattr":
        c = FallbackObj(x=sv)
        v = m.ref(c, "v")
        st.r["c" if t != "c" else "b"] = v.x + v.unknown
    elif kind == "objsub_setattr":
        c = FallbackObj()
        v = m.ref(c, "v")
        v.out = src * 2
    elif kind == "attrdict_read":
        c = st.xd.utils.AttrDict(x=sv)
        v = m.ref(c, "v")
        st.r["c" if t != "c" else "b"] = v.x + v["x"]
    else:
        raise ValueError(kind)
    st.extra = c
    # the source changes: the definition above follows it through the customised container
    U.assign(st.r, t, st.fresh())
    st.ex.notes["customised_containers"] = st.ex.notes.get("customised_containers", 0) + 1


def _extra_tx(st):
    c = getattr(st, "extra", None)
    if c is None:
        return None
    if isinstance(c, dict):
        body = {repr(k): tx(v) for k, v in dict.items(c)}
    elif isinstance(c, list):
        body = [tx(v) for v in list.__iter__(c)]
    else:
        body = {k: tx(v) for k, v in sorted(vars(c).items())}
    return {"kind": type(c).__name__, "contents": body, "side": [list(map(str, x)) for x in getattr(st, "side", [])]}


def _weird(st, op):
    t, kind = op[1], op[2]
    st.hist.append(f"weird {kind} -> {t}")
    key = {"listkey": [0, 1], "dictkey": {"x": 1}, "setkey": {0}, "listkey_target": [0]}[kind]
    if kind == "listkey_target":
        st.r["l"][key] = U.getref(st.r, t) * 2
    else:
        U.assign(st.r, t, st.r["l"][key])
    # reaching this point means the library accepted an unhashable key: the program stops here,
    # what it did so far is part of the transcript
    raise RuntimeError("accepted an unhashable key")


def tx(v):
    if isinstance(v, SymInt):
        return z3.simplify(v.e).sexpr()
    return repr(v)


def run_case(ex, case):
    """one program; emits its transcript"""
    build = case["build"]
    xd = get_xdeps("pure" if build == "ndset" else build, "all_sets" if build == "ndset" else None)
    orig = c03.get_xdeps
    c03.get_xdeps = lambda b: xd          # the (possibly instrumented) package loaded above
    try:
        st = c03.HState(ex, "pure" if build == "ndset" else build)
    finally:
        c03.get_xdeps = orig
    locs = LOCS
    prog = []
    exc = None
    for k in range(case["K"]):
        ops = list_ops(st.defs, locs)
        if build == "ndset":
            ops = [o for o in ops if o[0] == "expr"]
        if k > 0:
            ops = [o for o in ops if o[0] != "weird"] if case.get("first_kind") != "weird" else ops
            ops = [o for o in ops if o[0] not in ("npkey", "cont")]
            # no second definition / in-place operation on a slot already defined through a numpy key (alias)
            ops = [o for o in ops if o[1] not in getattr(st, "np_defined", ())]
            # ... and no read of a top-level location through the plain spelling while it is defined through
            # the numpy spelling: the two refs are unrelated for the library, the tasks would be unordered
            avoid = set(getattr(st, "np_avoid_reads", ()))
            if avoid:
                ops = [o for o in ops if not (o[0] == "expr" and avoid & U.reads(o[2])) and not (o[0] == "isubref" and o[2] in avoid)]
        i = case["first"] if k == 0 else ex.choose(len(ops))
        if i >= len(ops):
            return
        prog.append(i)
        try:
            if ops[i][0] == "weird":
                _weird(st, ops[i])
                continue
            if ops[i][0] == "npkey":
                _npkey(st, ops[i])
                continue
            if ops[i][0] == "cont":
                _cont(st, ops[i])
                continue
            st.apply(ops[i])
        except (Abort, Inconclusive):
            raise
        except Exception as e:
            exc = type(e).__name__
            break
    key = json.dumps(prog)
    out = {"hist": list(st.hist), "exc": exc}
    # a fresh value to every undefined location, one after the other (propagation order matters)
    if exc is None:
        for L in locs:
            if L in st.defs:
                continue
            try:
                U.assign(st.r, L, ex.int(f"fin_{L}"))
            except (Abort, Inconclusive):
                raise
            except Exception as e:
                out["exc"] = f"{type(e).__name__} on final assignment to {L}"
                break
    out["contents"] = {L: tx(U.getval(st.d, L)) for L in U.ALL_LOCS}
    out["extra_container"] = _extra_tx(st)
    out["dump"] = sorted(map(list, st.m.dump()))
    out["deps"] = {str(t.taskid): sorted(str(x) for x in t.dependencies) for t in st.m.tasks.values()}
    out["texts"] = sorted(f"{t}" for t in st.m.tasks.values())
    try:
        m2 = pickle.loads(pickle.dumps(st.m))
        out["pickle"] = sorted(map(list, m2.dump()))
    except Exception as e:
        out["pickle"] = type(e).__name__
    ex.emit(key, json.dumps(out, sort_keys=True))
    ex.notes["programs"] = ex.notes.get("programs", 0) + 1


def cases(tier):
    n0 = len(list_ops({}, LOCS))
    out = []
    K = 2 if tier == "quick" else 3
    for b in ("pure", "compiled"):
        for i in range(n0):
            out.append({"build": b, "K": K, "first": i})
    n1 = len([o for o in list_ops({}, LOCS) if o[0] == "expr"])
    for i in range(n1):
        out.append({"build": "ndset", "K": 2, "first": i})
    return out


SEED_SCRIPT = r'''
import sys, json
sys.path.insert(0, %(verif)r)
from symx.load import load_xdeps
xd = load_xdeps("compiled")
import checks.universe as U
import checks.c20 as C
class Obj:
    def __init__(s, **k): s.__dict__.update(k)
res = []
for first in range(%(nprog)d):
    for second in range(0, 60, 7):
        m = xd.Manager()
        d = {"a": 3, "b": -2, "c": 5, "n": Obj(x=7, y=1, z=2), "l": [4, 9], "__K": {-1: 6, -2: 8}}
        r = m.ref(d, "d")
        fr = m.ref(U.FContainer(lambda x, y: x * 31 + y), "f")
        defs = {}
        hist = []
        try:
            for k, idx in enumerate((first, second)):
                ops = [o for o in C.list_ops(defs, C.LOCS) if o[0] in ("expr", "val", "unreg")]
                if idx >= len(ops): break
                op = ops[idx]
                if op[0] == "expr":
                    U.assign(r, op[1], U.build(op[2], r, fr)); defs[op[1]] = op[2]
                elif op[0] == "val":
                    U.assign(r, op[1], 11 + k); defs.pop(op[1], None)
                else:
                    m.unregister(U.getref(r, op[1])); defs.pop(op[1])
                hist.append(str(op))
            for j, L in enumerate(C.LOCS):
                if L not in defs:
                    U.assign(r, L, 100 + j)
            out = {"contents": {L: U.getval(d, L) for L in U.ALL_LOCS}, "dump": sorted(map(list, m.dump()))}
        except Exception as e:
            out = {"exc": type(e).__name__}
        res.append([hist, out])
print(json.dumps(res, sort_keys=True))
'''


def run_seeds(tier):
    verif = os.path.dirname(os.path.dirname(os.path.abspath(__file__)))
    nseed = 8 if tier == "quick" else 32
    outs = {}
    procs = []
    for seed in range(nseed):
        env = dict(os.environ, PYTHONHASHSEED=str(seed), PYTHONPATH=verif)
        procs.append((seed, subprocess.Popen([sys.executable, "-c", SEED_SCRIPT % {"verif": verif, "nprog": 12}],
                                             env=env, stdout=subprocess.PIPE, stderr=subprocess.PIPE, text=True)))
    for seed, p in procs:
        o, e = p.communicate(timeout=600)
        if p.returncode != 0:
            raise Inconclusive(f"seed process {seed} failed: {e[-400:]}")
        outs[seed] = o.strip()
    return outs


def prove_equal_contents(a, b):
    """different term texts: ask z3 whether the paired terms are equal for all values"""
    ctx_decls = {}
    s = z3.Solver()
    for L in a["contents"]:
        ta, tb = a["contents"][L], b["contents"][L]
        if ta == tb:
            continue
        try:
            fa = z3.parse_smt2_string(f"(assert (= {ta} {tb}))", decls=_decls(ta + " " + tb))
        except z3.Z3Exception:
            return False
        s.push()
        s.add(z3.Not(fa[0]))
        r = s.check()
        s.pop()
        if r != z3.unsat:
            return False
    return True


def _decls(text):
    import re
    d = {}
    for nm in set(re.findall(r"[A-Za-z_][A-Za-z_0-9.!]*", text)):
        if nm in ("let", "ite", "abs", "and", "or", "not", "div", "mod", "to_real", "to_int"):
            continue
        if nm.startswith(("i_", "v", "fin_", "fu_")):
            d[nm] = z3.Int(nm)
    for f, ar in (("g", 2), ("imul", 2), ("ipow", 2), ("band", 2), ("bor", 2), ("bxor", 2)):
        d[f] = z3.Function(f, *([z3.IntSort()] * (ar + 1)))
    return d


def main(tier, seed, replay, procs):
    from symx import driver
    import importlib
    import multiprocessing as mp
    mod = importlib.import_module("checks.c20")
    t0 = time.time()
    if replay:
        with open(replay) as fh:
            print(fh.read())
        print("replay: re-run ./check C20 to compare the builds / orders on the current tree")
        return 0
    cs = cases(tier)
    jobs = [("checks.c20", c, i, False) for i, c in enumerate(cs)]
    ctx = mp.get_context("fork")
    with ctx.Pool(min(16, procs or 16), maxtasksperchild=TASKS_PER_CHILD) as pool:
        results = list(pool.imap_unordered(driver._run_case, jobs, chunksize=1))
    errs = []
    viol = []
    by = {}
    for r in results:
        c = r["case"]
        for key, text in r.get("transcript", []):
            hist = json.dumps(json.loads(text)["hist"])
            by.setdefault(hist, {}).setdefault(c["build"], []).append(text)
    pairs = orders = 0
    for k, d in by.items():
        if ("pure" in d) != ("compiled" in d):
            # the same decision tree is run in both builds: a program that exists in one build only means that
            # the other build stopped earlier (an exception) or went on where this one stopped
            have = "pure" if "pure" in d else "compiled"
            j = json.loads(d[have][0])
            viol.append({"what": f"program {j['hist']} (outcome: {j['exc'] or 'ran to its end'}) exists only in the {have} build: the other build took another course on the same operations",
                         "program": j["hist"], have: {"exc": j["exc"]}})
            continue
        if "pure" in d and "compiled" in d:
            pairs += 1
            a, b = d["pure"][0], d["compiled"][0]
            if a != b:
                ja, jb = json.loads(a), json.loads(b)
                same_rest = all(ja[x] == jb[x] for x in ja if x != "contents")
                if not (same_rest and prove_equal_contents(ja, jb)):
                    diff = [x for x in ja if ja[x] != jb[x]]
                    viol.append({"what": f"compiled and pure-Python builds disagree on {diff} for program {ja['hist']}",
                                 "pure": {x: ja[x] for x in diff}, "compiled": {x: jb[x] for x in diff}, "program": ja["hist"]})
        if "ndset" in d:
            texts = set(d["ndset"])
            orders += len(d["ndset"])
            if len(texts) > 1:
                js = [json.loads(t) for t in sorted(texts)[:2]]
                diff = [x for x in js[0] if js[0][x] != js[1][x]]
                viol.append({"what": f"result depends on the iteration order of a set (hash seed): {diff} differ for program {js[0]['hist']}",
                             "order_1": {x: js[0][x] for x in diff}, "order_2": {x: js[1][x] for x in diff}, "program": js[0]["hist"]})
            if "pure" in d and d["pure"][0] not in texts:
                js = [json.loads(d["pure"][0]), json.loads(sorted(texts)[0])]
                diff = [x for x in js[0] if js[0][x] != js[1][x]]
                viol.append({"what": f"instrumented (all set orders) run differs from the plain run on {diff} for program {js[0]['hist']}",
                             "program": js[0]["hist"]})
    try:
        outs = run_seeds(tier)
        nseeds = len(outs)
        if len(set(outs.values())) > 1:
            seeds = sorted(outs)
            ref = json.loads(outs[seeds[0]])
            for s2 in seeds[1:]:
                cur = json.loads(outs[s2])
                for x, y in zip(ref, cur):
                    if x != y:
                        viol.append({"what": f"compiled build: PYTHONHASHSEED={seeds[0]} and {s2} disagree for program {x[0]}",
                                     "seed_a": x[1], "seed_b": y[1], "program": x[0]})
                        break
                if viol:
                    break
    except Inconclusive as e:
        errs.append(str(e))
        nseeds = 0
    for r in results:
        r["notes"]["build_pairs_equal"] = 0
    if results:
        results[0]["notes"]["build_pairs_equal"] = pairs
        results[0]["notes"]["orders_equal"] = orders
        results[0]["notes"]["seed_processes"] = nseeds
    # report violations through the common machinery (each is already a concrete, replayable program)
    for v in viol[:10]:
        results[0]["cexs"].append({"what": v["what"], "values": {}, "funcs": {}, "choices": [], "detail": v,
                                   "reproduced": True, "replay_failed": [], "case": {"program": v.get("program")}})
        results[0]["stats"]["replayed"] += 1
    return driver.finish(mod, ID, tier, seed, results, time.time() - t0,
                         extra_cov={"programs_compared_across_builds": pairs, "set_order_paths": orders, "compiled_seed_processes": nseeds},
                         extra_errors=errs)

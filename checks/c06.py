"""C06 - references are equal, and hash equally, exactly when they denote the same path.

(a) Solver part - unique decodability of the printed path.  Refs are built by
    the REAL constructors over placeholder keys whose repr()/str() are markers;
    str(ref) is produced by the real __repr__ methods and parsed into a string
    template ("d[" ++ R1 ++ "]." ++ A2 ...).  For every ordered pair of step-kind
    sequences up to depth D, with every key ranging over the regular language of
    repr() of its kind (str literal with either quote and escapes, -?digits,
    non-integral float, 2-tuple of those; identifiers for attributes) and bounded
    length, z3's sequence solver must find NO two different paths with the same
    printed text.  cvc5 re-checks when z3 answers unknown.
(b) Structural part on a concrete adversarial pool (quotes, brackets, text that
    looks like another path, the hash-colliding ints -1/-2, floats, tuples,
    unicode; attribute/item twins with the same name) of all paths of depth 1..3:
    __eq__ agrees with "same path" for every pair, equal refs have equal hashes,
    independently constructed equal refs select the same dict entry, and
    expressions of identical structure over equal refs are equal and hash equally.
Together with (a): equality is decided on the printed form, so equal => same path.
"""
import itertools
import time

import z3

from symx.driver import get_xdeps
from symx.core import Abort, Inconclusive

ID = "C06"
LEVEL = "model_checking"
FUNCTIONS = [
    "refs.py:BaseRef.__eq__", "refs.py:BaseRef.__hash__", "refs.py:ItemRef.__repr__", "refs.py:AttrRef.__repr__",
    "refs.py:Ref.__repr__", "refs.py:ItemRef.__cinit__", "refs.py:AttrRef.__cinit__", "refs.py:Ref.__cinit__",
    "refs.py:BinOpExpr.__cinit__", "refs.py:UnaryOpExpr.__cinit__", "refs.py:BuiltinRef.__cinit__", "refs.py:CallRef.__cinit__",
]
ASSUMPTIONS = [
    "CPython's repr is injective per key type and lies in the stated literal language (str/int/float/tuple), sampled at set-up with ast.literal_eval",
    "attribute steps use identifier names and container labels are identifiers (as in the property); bools and integral floats as keys are excluded by the property",
    "collision *rates* of large key families are a performance statement and are not decided here",
]
BOUNDS = {
    "quick": "(a) depth <= 2 over key kinds {attr, str, int, float, tuple(int,str)} plus one-element tuples (int,), (str,) and the empty tuple alone and after an attr/int step; templates are taken with marker keys of the real key type (str/int/float subclasses, real tuples of them), every key slot <= 5 printed characters, all ordered pairs of kind sequences (1521); (b) all paths of depth 1..3 over a 19-step adversarial pool (7239 paths, all 26 M pairs), 2 labels",
    "thorough": "(a) every kind (incl. the one-element / empty tuples) after every first step, and depth-3 sequences against depth <= 2 with the same first step, key slots <= 5 characters; (b) both builds",
}
OUTSIDE = "keys of other types; printed key length beyond the bound; collision rates"
REQUIRED_CLASSES = ["decodable_unsat", "pool_pairs", "dict_lookup", "expr_structure"]
PROFILE_CASES = 1
TASKS_PER_CHILD = 100
QUERY_TIMEOUT_MS = 60000


def note(ex, k, n=1):
    ex.notes[k] = ex.notes.get(k, 0) + n


# ----------------------------------------------------------------- (a) templates
class Marker:
    """placeholder key: repr/str/format are a marker so that the real __repr__ output can be split"""

    def __init__(self, i):
        self.i = i

    def __repr__(self):
        return f"\x00R{self.i}\x00"

    def __str__(self):
        return f"\x00S{self.i}\x00"

    def __format__(self, spec):
        return str(self)

    def __hash__(self):
        return hash(("marker", self.i))

    def __eq__(self, o):
        return isinstance(o, Marker) and o.i == self.i


def _marker_type(base):
    """a real str / int / float whose repr/str/format are markers: code that prints keys depending on
    their type (isinstance tests, special cases for tuples) follows the branch of the real key type"""
    class M(base):
        def __new__(cls, i):
            o = base.__new__(cls, {str: f"m{i}", int: 1000 + i, float: 1000.5 + i}[base])
            o.i = i
            return o

        def __repr__(self):
            return f"\x00R{self.i}\x00"

        def __str__(self):
            return f"\x00S{self.i}\x00"

        def __format__(self, spec):
            return str(self)

        def __hash__(self):
            return base.__hash__(self)
    M.__name__ = "M" + base.__name__
    return M


MStr, MInt, MFlt = _marker_type(str), _marker_type(int), _marker_type(float)
# step kind -> (constructor of the marker key, kinds of its slots)
KEYKINDS = {
    "attr": (lambda i: Marker(10 * i), ["attr"]),
    "str": (lambda i: MStr(10 * i), ["str"]),
    "int": (lambda i: MInt(10 * i), ["int"]),
    "flt": (lambda i: MFlt(10 * i), ["flt"]),
    "tup": (lambda i: (MInt(10 * i), MStr(10 * i + 1)), ["int", "str"]),
    "tup1i": (lambda i: (MInt(10 * i),), ["int"]),
    "tup1s": (lambda i: (MStr(10 * i),), ["str"]),
    "tup0": (lambda i: (), []),
}


def slot_kinds(shape):
    out = {}
    for i, k in enumerate(shape):
        for c, sk in enumerate(KEYKINDS[k][1]):
            out[10 * i + c] = sk
    return out


def template(xd, shape):
    """printed form of a path with the given step kinds, as list of literal pieces and key slots"""
    R = xd.refs
    m = xd.Manager()
    ref = m.ref({}, "d")
    for i, k in enumerate(shape):
        mk = KEYKINDS[k][0](i)
        ref = R.AttrRef(ref, mk, m) if k == "attr" else R.ItemRef(ref, mk, m)
    text = str(ref)
    parts = text.split("\x00")
    out = []
    for j, p in enumerate(parts):
        if j % 2 == 0:
            if p:
                out.append(("lit", p))
        else:
            out.append(("key", int(p[1:]), p[0]))       # slot printed with repr ('R') or str ('S')
    return out


_S = z3.StringSort()
ANY = z3.AllChar(z3.ReSort(_S))


def notch(*cs):
    return z3.Intersect(ANY, z3.Complement(z3.Union(*[z3.Re(c) for c in cs]) if len(cs) > 1 else z3.Re(cs[0])))


def languages():
    ident = z3.Concat(z3.Union(z3.Range("a", "z"), z3.Range("A", "Z"), z3.Re("_")),
                      z3.Star(z3.Union(z3.Range("a", "z"), z3.Range("A", "Z"), z3.Range("0", "9"), z3.Re("_"))))
    esc = z3.Concat(z3.Re("\\"), ANY)
    sq = z3.Concat(z3.Re("'"), z3.Star(z3.Union(notch("'", "\\"), esc)), z3.Re("'"))
    dq = z3.Concat(z3.Re('"'), z3.Star(z3.Union(notch('"', "\\"), esc)), z3.Re('"'))
    strlit = z3.Union(sq, dq)
    dig = z3.Range("0", "9")
    nat = z3.Union(z3.Re("0"), z3.Concat(z3.Range("1", "9"), z3.Star(dig)))
    integer = z3.Concat(z3.Option(z3.Re("-")), nat)
    flt = z3.Concat(integer, z3.Re("."), z3.Plus(dig))
    return {"attr": ident, "str": strlit, "int": integer, "flt": flt, "rawstr": z3.Star(ANY)}


def printed(tmpl, tag, shape):
    """(z3 string of the printed path, [(slot id, variable, language)]) - one variable per key slot of the
    path, whether the real __repr__ prints it or not (a slot that is not printed stays unconstrained)"""
    sk = slot_kinds(shape)
    var = {v: z3.String(f"{tag}_{v}") for v in sk}
    lang = dict(sk)
    parts = []
    for item in tmpl:
        if item[0] == "lit":
            parts.append(z3.StringVal(item[1]))
        else:
            v, how = item[1], item[2]
            if sk[v] == "str" and how == "S":
                lang[v] = "rawstr"          # a str key printed with str() instead of repr() is raw text
            parts.append(var[v])
    keys = [(v, var[v], lang[v]) for v in sorted(sk)]
    return (z3.Concat(*parts) if len(parts) > 1 else (parts[0] if parts else z3.StringVal(""))), keys


def cvc5_unsat(smt2):
    import cvc5
    slv = cvc5.Solver()
    slv.setOption("strings-exp", "true")
    slv.setOption("strings-fmf", "true")
    slv.setOption("tlimit-per", "600000")
    p = cvc5.InputParser(slv)
    p.setStringInput(cvc5.InputLanguage.SMT_LIB_2_6, smt2, "q")
    sm = p.getSymbolManager()
    out = []
    while True:
        cmd = p.nextCommand()
        if cmd.isNull():
            break
        r = cmd.invoke(slv, sm)
        if r.strip():
            out.append(r.strip())
    return out and out[0] == "unsat"


def run_decode(ex, case):
    xd = get_xdeps(case["build"])
    L = languages()
    s1, s2 = case["s1"], case["s2"]
    t1, t2 = template(xd, s1), template(xd, s2)
    p1, k1 = printed(t1, "p", s1)
    p2, k2 = printed(t2, "q", s2)
    s = z3.Solver()
    s.set("timeout", QUERY_TIMEOUT_MS)
    for _, v, kind in k1 + k2:
        s.add(z3.InRe(v, L[kind]), z3.Length(v) <= case["maxlen"])
    s.add(p1 == p2)
    if s1 == s2:
        if not k1:
            note(ex, "decodable_unsat")
            ex.stats.proved += 1
            return
        s.add(z3.Or(*[a != b for (_, a, _), (_, b, _) in zip(k1, k2)]))
    t0 = time.perf_counter()
    r = s.check()
    ex.stats.solver_s += time.perf_counter() - t0
    ex.stats.q_assert += 1
    det = {"kinds1": s1, "kinds2": s2}
    if r == z3.unknown:
        ex.stats.unknown += 1
        if cvc5_unsat("(set-logic QF_SLIA)\n" + s.to_smt2()):
            r = z3.unsat
            note(ex, "decided_by_cvc5")
        else:
            raise Inconclusive(f"string solvers undecided on kinds {s1} vs {s2}")
    if r == z3.unsat:
        ex.stats.unsat += 1
        ex.stats.proved += 1
        note(ex, "decodable_unsat")
        if len(ex.samples) < 1:
            ex.samples.append({"kinds1": s1, "kinds2": s2, "verdict": "unsat", "template1": str(t1)})
        return
    ex.stats.sat += 1
    mo = s.model()
    import ast
    vals1 = {slot: mo.eval(v, model_completion=True).as_string() for slot, v, _ in k1}
    vals2 = {slot: mo.eval(v, model_completion=True).as_string() for slot, v, _ in k2}
    lang1 = {slot: k for slot, _, k in k1}
    lang2 = {slot: k for slot, _, k in k2}
    # replay: build the two refs with the real constructors from the decoded keys
    try:
        R = xd.refs
        m = xd.Manager()

        def build(shape, vals, lang):
            ref = m.ref({}, "d")
            for i, kind in enumerate(shape):
                comp = [vals[10 * i + c] if lang[10 * i + c] in ("attr", "rawstr") else ast.literal_eval(vals[10 * i + c])
                        for c in range(len(KEYKINDS[kind][1]))]
                if kind == "attr":
                    ref = R.AttrRef(ref, comp[0], m)
                else:
                    ref = R.ItemRef(ref, tuple(comp) if kind.startswith("tup") else comp[0], m)
            return ref
        a, b = build(s1, vals1, lang1), build(s2, vals2, lang2)
        same_path = (s1 == s2 and [repr(x) for x in _keys(a)] == [repr(x) for x in _keys(b)])
        if (a == b) and not same_path:
            ex.fail(f"two different paths compare equal: {a} ({s1}: {vals1}) and {b} ({s2}: {vals2})", det)
            return
    except (SyntaxError, ValueError):
        pass
    raise Inconclusive(f"decodability model does not replay: {vals1} / {vals2}")


def _keys(ref):
    out = []
    while hasattr(ref, "_owner") and hasattr(ref._owner, "_owner"):
        out.append(ref._key)
        ref = ref._owner
    return out[::-1]


# ----------------------------------------------------------------- (b) pool
STEPS = [("attr", "x"), ("item", "x"), ("item", "1"), ("item", 1), ("item", -1), ("item", -2), ("item", 1.5),
         ("item", ("x", 1)), ("item", "x']['k"), ("item", "a.x"), ("item", "é"), ("item", "it's"), ("attr", "k"), ("item", "k"),
         ("item", (1,)), ("item", ("x",)), ("item", ()), ("item", "1,"), ("item", (1, "x"))]


def build_path(xd, m, root, steps):
    ref = root
    for kind, key in steps:
        ref = getattr(ref, key) if kind == "attr" else ref[key]
    return ref


def run_pool(ex, case):
    xd = get_xdeps(case["build"])
    m = xd.Manager()
    roots = {"a": m.ref({}, "a"), "b": m.ref({}, "b")}
    m2 = m
    paths = []
    for d in range(1, case["depth"] + 1):
        for steps in itertools.product(STEPS, repeat=d):
            paths.append(("a", steps))
    for steps in itertools.product(STEPS[:4], repeat=2):
        paths.append(("b", steps))
    refs = [build_path(xd, m, roots[lab], st) for lab, st in paths]
    # independent construction: another manager, other container objects with other contents, same labels
    m2 = xd.Manager()
    roots2 = {"a": m2.ref({"x": 1.5, "name": "a"}, "a"), "b": m2.ref([7, 8, 9], "b")}
    refs2 = [build_path(xd, m2, roots2[lab], st) for lab, st in paths]
    note(ex, "pool_pairs", 0)
    # same path => equal, equal hash
    for p, a, b in zip(paths, refs, refs2):
        if not (a == b) or hash(a) != hash(b) or a is b:
            ex.fail(f"two independent constructions of {a} are not equal / hash differently", {"path": repr(p)})
            return
    # different path => not equal (all pairs), equal => equal hash
    texts = [str(r) for r in refs]
    byhash = {}
    n = len(refs)
    part, parts = case.get("part", 0), case.get("parts", 1)
    for i in range(part, n, parts):
        ai = refs[i]
        for j in range(i + 1, n):
            if ai == refs2[j]:
                ex.fail(f"different paths compare equal: {paths[i]} -> {texts[i]}  and  {paths[j]} -> {texts[j]} (hashes equal: {hash(ai) == hash(refs2[j])})",
                        {"p1": repr(paths[i]), "p2": repr(paths[j])})
                return
    note(ex, "pool_pairs", sum(n - 1 - i for i in range(part, n, parts)))
    if part:
        return
    # dict / set membership
    dct = {r: i for i, r in enumerate(refs)}
    if len(dct) != n:
        ex.fail(f"{n} distinct paths occupy only {len(dct)} dictionary entries")
        return
    for i, r in enumerate(refs2):
        note(ex, "dict_lookup")
        if dct.get(r) != i:
            ex.fail(f"an independently constructed {r} selects dictionary entry {dct.get(r)} instead of {i}")
            return
    # expressions of identical structure over equal refs
    import math
    mk = [lambda p, q: p + q, lambda p, q: p - q * 2, lambda p, q: -p, lambda p, q: abs(p), lambda p, q: round(p, 2),
          lambda p, q: divmod(p, q), lambda p, q: p(q, k=1), lambda p, q: 3 ** p, lambda p, q: p[q], lambda p, q: math.floor(p) < q,
          lambda p, q: p._eq(q), lambda p, q: (p + q) * (p + q)]
    sel = list(range(0, n, max(1, n // 40)))
    for f in mk:
        es1 = [f(refs[i], refs[(i * 7 + 3) % n]) for i in sel]
        es2 = [f(refs2[i], refs2[(i * 7 + 3) % n]) for i in sel]
        for a, b in zip(es1, es2):
            note(ex, "expr_structure")
            if not (a == b) or hash(a) != hash(b):
                ex.fail(f"expressions of identical structure {a} are not equal / hash differently")
                return
        for x in range(len(es1)):
            for y in range(x + 1, len(es1)):
                if es1[x] == es2[y] and str(es1[x]) != str(es2[y]):
                    ex.fail(f"different expressions compare equal: {es1[x]} and {es2[y]}")
                    return
    if len(ex.samples) < 1:
        ex.samples.append({"paths": n, "example": texts[len(texts) // 2]})


def run_case(ex, case):
    if case["mode"] == "decode":
        return run_decode(ex, case)
    return run_pool(ex, case)


def cases(tier):
    out = []
    kinds = ["attr", "str", "int", "flt", "tup"]
    more = ["tup1i", "tup1s", "tup0"]
    builds = ["pure"] if tier == "quick" else ["pure", "compiled"]
    D = 2
    shapes = [list(sh) for d in range(1, D + 1) for sh in itertools.product(kinds, repeat=d)]
    # one-element and empty tuples: alone, and after an attribute / int step
    shapes += [[k] for k in more] + [[a, k] for a in (["attr", "int"] if tier == "quick" else kinds) for k in more]
    for s1 in shapes:
        for s2 in shapes:
            # key slots of at most 5 printed characters in both tiers: with the tuple kinds the sequence solvers do
            # not finish longer slots within the per-query limits (a query that is not decided is exit 2, never a pass)
            out.append({"mode": "decode", "build": "pure", "s1": s1, "s2": s2, "maxlen": 5})
    if tier != "quick":
        for s1 in itertools.product(kinds[:4], repeat=3):
            for s2 in shapes:
                if s2[0] == s1[0]:
                    out.append({"mode": "decode", "build": "pure", "s1": list(s1), "s2": s2, "maxlen": 5})
    for b in builds:
        for part in range(12):
            out.append({"mode": "pool", "build": b, "depth": 3, "part": part, "parts": 12})
    return out

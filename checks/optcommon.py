"""Shared symbolic harness for the optimizer properties (C09, C10, C15).

The real Optimize / MeritFunctionForMatch / JacobianSolver code runs on symbolic
reals: start knobs, limits, tolerances, target values, max_step are z3 Reals;
the user's merit function is a vector of uninterpreted functions f_i(k_1..k_n)
(any deterministic function); LAPACK is replaced by a stub whose lstsq returns a
vector of fresh reals (any Newton step whatsoever).  The numpy facade is
installed as `np` of optimize.py / jacobian.py in this process only.
"""
import numpy as np
import z3

from symx.driver import get_xdeps
from symx.npfacade import FACADE
from symx.values import SymReal, SymBool, lift_real, tobool, eq
from symx.core import Abort, Inconclusive
from symx import core

STUBS = [
    "LAPACK: jacobian.SVD replaced by a stub; lstsq returns fresh symbolic reals (any Newton step), rank/cond = -1",
    "user merit function: uninterpreted functions of the knob values (any deterministic function); an Action.run call may raise (engine decision)",
    "general._print suppressed",
    "numpy facade as module global np of optimize.py and jacobian.py (object arrays instead of float64 for symbolic values)",
    "floats are treated as reals; products of two symbolic values and sqrt are uninterpreted (smul commutative, sqrtf >= 0)",
]


class UserError(Exception):
    """exception raised by the user's action"""


class StopAfterSystem(Exception):
    """raised by the LAPACK stub (on request) right after it has recorded its inputs: the rest of the step is
    not the subject of the harness that asked for it"""


class Recorder:
    def __init__(self):
        self.svd_inputs = []       # (matrix, rhs) per lstsq call
        self.steps = []            # stub outputs
        self.stop_next = False


def install(xd, ex, rec):
    """Install facade and LAPACK stub; returns (O, J)."""
    import xdeps.optimize.optimize as O
    import xdeps.optimize.jacobian as J
    import xdeps.general as G
    O.np = FACADE
    J.np = FACADE
    G._print.suppress = True

    class StubSVD:
        def __init__(self, matrix, **kw):
            self.matrix = matrix
            self.n = matrix.shape[1]
            self.rank = -1
            self.cond = -1

        def lstsq(self, b, rcond=None, sing_val_cutoff=None):
            e = core.cur()
            vals = [e.real(e.name("newton")) for _ in range(self.n)]
            step = np.array(vals, dtype=float if (vals and all(type(v) is float for v in vals)) else object)
            rec.svd_inputs.append((self.matrix, b))
            rec.steps.append(step)
            if rec.stop_next:
                raise StopAfterSystem()
            return step
    J.SVD = StubSVD
    return O, J


class Problem:
    def __init__(self, ex, case):
        self.ex = ex
        self.case = case
        xd = get_xdeps(case.get("build", "pure"))
        self.rec = Recorder()
        O, J = install(xd, ex, self.rec)
        self.O, self.J = O, J
        NK, NT = case["nk"], case["nt"]
        self.NK, self.NT = NK, NT
        d = WriteLog()
        for i in range(NK):
            dict.__setitem__(d, f"k{i}", ex.real(f"x0_{i}"))
        self.d = d
        self.lims = [(ex.real(f"lo{i}"), ex.real(f"hi{i}")) for i in range(NK)]
        for i in range(NK):
            ex.assume(tobool(self.lims[i][0] <= d[f"k{i}"]))
            ex.assume(tobool(d[f"k{i}"] <= self.lims[i][1]))
        self.x0 = [d[f"k{i}"] for i in range(NK)]
        self.max_step = None
        vary = []
        for i in range(NK):
            ms = None
            if case.get("max_step"):
                ms = ex.real(f"ms{i}")
                ex.assume(tobool(ms > 0))
            w = None
            if case.get("weights"):
                w = ex.real(f"wk{i}")
                ex.assume(tobool(w > 0))
            v = O.Vary(f"k{i}", d, limits=None, step=1e-3, max_step=ms, weight=w, tag=f"vt{i}",
                       active=(i not in case.get("init_inactive_vary", [])))
            v.limits = np.array(self.lims[i], dtype=object)
            vary.append(v)
        self.vary = vary
        self.fs = [ex.func(f"f{i}", NK, "real") for i in range(NT)]
        prob = self

        class Act(O.Action):
            def __init__(self):
                self.ncalls = 0

            def run(self):
                k = self.ncalls
                self.ncalls += 1
                if prob.raise_at is not None and k == prob.raise_at:
                    raise UserError(f"user action failed at call {k}")
                xs = [d[f"k{i}"] for i in range(NK)]
                return {f"t{i}": prob.fs[i](*xs) for i in range(NT)}
        self.raise_at = None
        self.act = Act()
        self.tvals = [ex.real(f"tv{i}") if case.get("sym_target_values") else 0.0 for i in range(NT)]
        self.tols = [ex.real(f"tol{i}") for i in range(NT)]
        for t in self.tols:
            ex.assume(tobool(t > 0))
        logs = case.get("optimize_log", [])
        for i in logs:
            # log targets need positive values
            self.tvals[i] = ex.real(f"tvlog{i}")
            ex.assume(tobool(self.tvals[i] > 0))
        self.targets = [self.act.target(f"t{i}", self.tvals[i], tol=self.tols[i], tag=f"tt{i}", optimize_log=(i in logs))
                        for i in range(NT)]

    def make_opt(self, **kw):
        so = dict(n_bisections=self.case.get("n_bisections", 0),
                  error_on_penalty_increase=self.case.get("error_on_penalty_increase", None),
                  max_rel_penalty_increase=self.case.get("max_rel_penalty_increase", None))
        opts = dict(n_steps_max=self.case.get("n_steps", 1), solver_options=so, show_call_counter=False)
        opts.update(kw)
        self.opt = self.O.Optimize(self.vary, self.targets, **opts)
        self.d.log.clear()
        return self.opt

    def f_at(self, i, knobs):
        return self.fs[i](*knobs)

    def knobs_now(self):
        return [self.d[f"k{i}"] for i in range(self.NK)]

    def within_tol(self, i, knobs):
        """|f_i(knobs) - value_i| < tol_i  (independent re-evaluation)"""
        r = self.f_at(i, knobs) - self.tvals[i]
        return tobool(abs(r) < self.tols[i])


class WriteLog(dict):
    """knob container that logs every write (key, value)"""

    def __init__(self):
        dict.__init__(self)
        self.log = []

    def __setitem__(self, k, v):
        self.log.append((k, v))
        dict.__setitem__(self, k, v)


def classify(e):
    if isinstance(e, UserError):
        return "user_exception"
    if isinstance(e, RuntimeError):
        return "runtime_error"
    if isinstance(e, ValueError):
        if "limit" in str(e):
            return "limit_value_error"
        return "value_error"
    return type(e).__name__


def note(ex, k, n=1):
    ex.notes[k] = ex.notes.get(k, 0) + n


def validate_facade():
    """Concrete problems through the facade must give bit-identical results to
    plain numpy (the repository's own optimizer test problem)."""
    import importlib
    xd = get_xdeps("pure")
    import xdeps.optimize.optimize as O
    import xdeps.optimize.jacobian as J
    import xdeps.general as G
    G._print.suppress = True
    res = []
    for use in (False, True):
        O.np = FACADE if use else np
        J.np = FACADE if use else np
        importlib.reload(__import__("xdeps.optimize.matrixutils", fromlist=["x"]))
        from xdeps.optimize.matrixutils import SVD
        J.SVD = SVD
        x = np.array([1.0, 0.5, -0.3])

        def fun(x):
            return np.array([(x[0] - 0.0001) ** 2, (x[1] - 0.0003) ** 2, (x[2] + 0.0005) ** 2, 3.0])
        opt = O.Optimize.from_callable(fun, x, tar=[0., 0., 0., 3.], steps=[1e-6] * 3, tols=[1e-12] * 4,
                                       limits=[[-2, 2]] * 3, show_call_counter=False)
        opt.solve()
        res.append([float(v) for v in opt._err._extract_knob_values()] + [float(p) for p in opt._log["penalty"]])
    O.np = np
    J.np = np
    return res[0] == res[1], res

"""C18 - a failure in the middle of an update is reported and fully recoverable.

The containers are fault-injecting: the k-th container write of an update raises
(k is an engine decision over every write of the update, including the initial
write of the assigned location).  Real Manager.set_value / run_tasks /
ExprTask.run on symbolic contents.  Assertions, per path:
  * the injected exception reaches the caller;
  * definitions, index supports and every query answer are identical before and
    after the failed update;
  * w.r.t. the order find_tasks announced: the assigned location and every task
    scheduled before the failing write hold their new value (z3, pull-model
    evaluation on the partially updated contents), every task scheduled at or
    after it holds its old value (z3);
  * after up to two faulty updates in a row, repeating the (same) assignment with
    the fault gone re-establishes the C01 oracle for every location (z3).
"""
import z3

from symx.driver import get_xdeps
from symx.values import eq
from symx.core import Abort, Inconclusive
from . import universe as U
from . import c01, c03

ID = "C18"
LEVEL = "model_checking"
FUNCTIONS = [
    "tasks.py:Manager.set_value", "tasks.py:Manager.run_tasks", "tasks.py:Manager.find_tasks",
    "tasks.py:ExprTask.run", "refs.py:ItemRef._set_value", "refs.py:AttrRef._set_value", "sorting.py:toposort",
]
ASSUMPTIONS = c01.ASSUMPTIONS[:3] + [
    "faults are container-write failures (dict __setitem__, object __setattr__, list __setitem__ raising InjectedFault, an Exception, or InjectedInterrupt, a KeyboardInterrupt subclass); a task whose evaluation raises behaves the same way (ExprTask.run evaluates then writes)",
    "universe with at most one member per nested container (no false ordering cycle: open finding C01-false-cycle does not apply)",
]
BOUNDS = {
    "quick": "every manager of <=3 acyclic expression definitions over {a,b,c,n.x,l0} in every registration order (sampled 1 in 3 for 3 definitions); assignment to every location; "
             "fault at every write position; <=2 faulty updates in a row (second with a fresh value or the same value), then the fault-free repeat; linear knobs with 1..4 targets (plain or derived source, optional reader of the first target), every pair of failing write positions",
    "thorough": "all managers of <=3 definitions, <=3 faulty updates in a row, both builds",
}
OUTSIDE = "faults inside index maintenance (register/unregister) - set_value touches the indices only before the first write; FunctionTask actions raising (same run_tasks loop)"
REQUIRED_CLASSES = ["fault_injected", "fault_at_first_write", "fault_mid_update", "repeat_ok", "second_fault", "interrupt_fault", "knob_scenarios"]
PROFILE_CASES = 4
TASKS_PER_CHILD = 30
LOCS = ["a", "b", "c", "n.x", "l0"]


class InjectedFault(Exception):
    pass


class InjectedInterrupt(KeyboardInterrupt):
    """a fault that is not an Exception subclass (an interrupt arriving during the update)"""


FAULTS = (InjectedFault, InjectedInterrupt)


class FaultEnv:
    exc = InjectedFault

    def __init__(self):
        self.count = 0
        self.fail_at = None
        self.log = []

    def write(self, what):
        k = self.count
        self.count += 1
        if self.fail_at is not None and k == self.fail_at:
            raise self.exc(f"write #{k} ({what})")
        self.log.append(what)

    def arm(self, k):
        self.count = 0
        self.fail_at = k
        self.log = []


class FDict(dict):
    env = None

    def __setitem__(self, k, v):
        self.env.write(f"d[{k!r}]")
        dict.__setitem__(self, k, v)


class FObj:
    def __init__(self, env, **kw):
        object.__setattr__(self, "_env", env)
        for k, v in kw.items():
            object.__setattr__(self, k, v)

    def __setattr__(self, k, v):
        self._env.write(f"n.{k}")
        object.__setattr__(self, k, v)


class FList(list):
    env = None

    def __setitem__(self, k, v):
        self.env.write(f"l[{k}]")
        list.__setitem__(self, k, v)


def note(ex, k, n=1):
    ex.notes[k] = ex.notes.get(k, 0) + n


class FState(c03.HState):
    def __init__(self, ex, build):
        c03.HState.__init__(self, ex, build)
        env = FaultEnv()
        self.env = env
        d0 = self.d
        fd = FDict()
        fd.env = env
        fl = FList(d0["l"])
        fl.env = env
        fk = FDict()
        fk.env = env
        dict.update(fk, d0["__K"])
        dict.update(fd, {"a": d0["a"], "b": d0["b"], "c": d0["c"],
                         "n": FObj(env, x=d0["n"].x, y=d0["n"].y, z=d0["n"].z), "l": fl, "__K": fk})
        self.d = fd
        self.m = self.xd.Manager()
        self.r = self.m.ref(self.d, "d")
        self.fr = self.m.ref(U.FContainer(self.g), "f")


def oracle_ok(ex, st, what):
    for L in U.ALL_LOCS:
        cur = U.getval(st.d, L)
        exp = U.ev(st.defs[L], st.d, st.g) if L in st.defs else st.last[L]
        if not ex.prove(eq(cur, exp), f"{what}: location {L} != " + ("its definition" if L in st.defs else "last assigned value"),
                        {"history": list(st.hist)}):
            return False
    return True


def target_loc(task):
    s = str(task.taskid)
    for L in U.ALL_LOCS:
        if c01._refname(L) == s:
            return L
    return None


def run_knob(ex, case):
    """Linear-knob tasks in the update: source (plain or derived) -> knob targets -> a reader.
    Every write position of the update fails once (or twice), then the assignment is repeated."""
    st = FState(ex, case["build"])
    if case.get("fault") == "interrupt":
        st.env.exc = InjectedInterrupt
    m, r, d = st.m, st.r, st.d
    L = "a"
    targets = case["targets"]                     # e.g. ["b"] or ["b", "n.x"]
    ws = [3, -2, 5, 7][:len(targets)]             # concrete weights keep the obligations linear
    if case.get("derived_source"):
        st.apply(("expr", "c", ("add", ("loc", "a"), ("const", 1))))
        S = "c"
    else:
        S = "a"
    knob = st.xd.tasks.LinearKnob("knob", U.getref(r, S), ws, [U.getref(r, t) for t in targets])
    m.register(knob)
    reader = case.get("reader")                   # location defined as 2 * first target
    if reader:
        st.apply(("expr", reader, ("mul", ("loc", targets[0]), ("const", 2))))
    note(ex, "knob_scenarios")
    t0 = {t: U.getval(d, t) for t in targets}
    s0 = U.getval(d, S)
    ref = U.getref(r, L)
    v = ex.int("v_new")
    nfaults = 1 + ex.choose(case.get("maxfaults", 2))
    for f in range(nfaults):
        if f > 0 and ex.choose(2) == 1:
            v = ex.int(f"v_new{f}")
        plan = m.find_tasks(ref._get_dependencies())
        nwrites = 1 + sum(len(targets) if t is knob else 1 for t in plan)
        k = ex.choose(nwrites)
        before = {"snap": c03.snapshot(m, st.xd), "queries": c03.queries(m, r, None), "dump": sorted(map(tuple, m.dump()))}
        st.env.arm(k)
        note(ex, "fault_injected")
        try:
            U.assign(r, L, v)
            ex.fail(f"knob scenario: fault at write {k} of the update of {L} did not reach the caller", {"case": case})
            return
        except FAULTS:
            pass
        except (Abort, Inconclusive):
            raise
        except Exception as e:
            ex.fail(f"knob scenario: fault at write {k}: caller got {type(e).__name__}: {e}", {"case": case})
            return
        finally:
            st.env.fail_at = None
        st.hist.append(f"{L} = <value> with fault at write {k} of {nwrites}")
        after = {"snap": c03.snapshot(m, st.xd), "queries": c03.queries(m, r, None), "dump": sorted(map(tuple, m.dump()))}
        if after != before:
            ex.fail(f"knob scenario: a failed update changed {[x for x in after if after[x] != before[x]]}", {"history": list(st.hist)})
            return
    try:
        U.assign(r, L, v)
    except (Abort, Inconclusive):
        raise
    except Exception as e:
        ex.fail(f"knob scenario: fault-free repeat raised {type(e).__name__}: {e}", {"history": list(st.hist)})
        return
    st.hist.append(f"{L} = <same value>, no fault")
    note(ex, "repeat_ok")
    det = {"history": list(st.hist), "targets": targets, "source": S}
    s1 = v + 1 if S == "c" else v
    if not ex.prove(eq(U.getval(d, S), s1), "knob scenario: the knob's source does not hold its value after the repeat", det):
        return
    for w, t in zip(ws, targets):
        if not ex.prove(eq(U.getval(d, t), t0[t] + w * (s1 - s0)),
                        f"after the fault-free repeat: knob target {t} != old value + weight * (change of the source)", det):
            return
    if reader and not ex.prove(eq(U.getval(d, reader), 2 * U.getval(d, targets[0])),
                               f"after the fault-free repeat: {reader} != its definition", det):
        return
    # one more ordinary update: the knob keeps following the source
    v2 = ex.int("v_after")
    U.assign(r, L, v2)
    s2 = v2 + 1 if S == "c" else v2
    for w, t in zip(ws, targets):
        if not ex.prove(eq(U.getval(d, t), t0[t] + w * (s2 - s0)),
                        f"after recovery and one more update: knob target {t} != old value + weight * (change of the source)", det):
            return


def run_case(ex, case):
    if case.get("mode") == "knob":
        return run_knob(ex, case)
    st = FState(ex, case["build"])
    if case.get("fault") == "interrupt":
        st.env.exc = InjectedInterrupt
        note(ex, "interrupt_fault")
    for (t, dsc) in case["defs"]:
        st.apply(("expr", t, c01._tup(dsc)))
    if not oracle_ok(ex, st, "before any fault"):
        return
    L = case["loc"]
    if L in st.defs:
        return
    ref = U.getref(st.r, L)
    v = ex.int("v_new")
    exprmode = case.get("assign_expr")
    if exprmode:
        # the faulty (and repeated) assignment is expression-valued: L = <free location> + 1
        src = [M for M in LOCS if M != L and M not in st.defs and L not in U.reads(("loc", M))]
        src = [M for M in src if not U.is_cyclic(dict(st.defs, **{L: ("add", ("loc", M), ("const", 1))}))]
        if not src:
            return
        srcloc = src[0]
        new_def = ("add", ("loc", srcloc), ("const", 1))
    nfaults = 1 + ex.choose(case["maxfaults"])
    for f in range(nfaults):
        if f > 0:
            note(ex, "second_fault")
            if ex.choose(2) == 1:
                v = ex.int(f"v_new{f}")          # a different value the second time
        plan = st.m.find_tasks(ref._get_dependencies())
        if exprmode:
            plan = [t for t in plan if str(t.taskid) != str(ref)]
        nwrites = 1 + len(plan)
        k = ex.choose(nwrites)
        before = {"snap": c03.snapshot(st.m, st.xd), "queries": c03.queries(st.m, st.r, None),
                  "dump": sorted(map(tuple, st.m.dump()))}
        old = {M: U.getval(st.d, M) for M in U.ALL_LOCS}
        st.env.arm(k)
        note(ex, "fault_injected")
        note(ex, "fault_at_first_write" if k == 0 else "fault_mid_update")
        try:
            U.assign(st.r, L, U.build(new_def, st.r, st.fr) if exprmode else v)
            ex.fail(f"fault at write {k} of the update of {L} did not reach the caller", {"history": list(st.hist), "plan": [str(t) for t in plan]})
            return
        except FAULTS:
            pass
        except (Abort, Inconclusive):
            raise
        except Exception as e:
            ex.fail(f"fault at write {k} of the update of {L}: caller got {type(e).__name__}: {e} instead of the injected exception",
                    {"history": list(st.hist)})
            return
        finally:
            st.env.fail_at = None
        st.hist.append(f"{L} = <value> with fault at write {k} of {nwrites} (plan {[str(t.taskid) for t in plan]})")
        after = {"snap": c03.snapshot(st.m, st.xd), "queries": c03.queries(st.m, st.r, None),
                 "dump": sorted(map(tuple, st.m.dump()))}
        if exprmode:
            # the definition itself is installed before the first write; from then on nothing may change
            if f == 0:
                st.defs[L] = new_def
            before = after if f == 0 else before
            v = U.ev(new_def, st.d, st.g)
        if after != before:
            bad = [x for x in after if after[x] != before[x]]
            ex.fail(f"a failed update changed {bad}", {"history": list(st.hist)})
            return
        # effects: writes 0..K-1 happened, k.. did not
        det = {"history": list(st.hist)}
        if k >= 1:
            if not ex.prove(eq(U.getval(st.d, L), v), f"fault at write {k}: the assigned location {L} does not hold the new value", det):
                return
        else:
            if not ex.prove(eq(U.getval(st.d, L), old[L]), f"fault at the first write: {L} changed although its write failed", det):
                return
        planned = []
        for i, t in enumerate(plan):
            T = target_loc(t)
            planned.append(T)
            if T is None:
                continue
            if i + 1 < k:
                exp = U.ev(st.defs[T], st.d, st.g)
                if not ex.prove(eq(U.getval(st.d, T), exp),
                                f"fault at write {k}: task #{i + 1} ({T}) was scheduled before the failing one but does not hold its new value", det):
                    return
            else:
                if not ex.prove(eq(U.getval(st.d, T), old[T]),
                                f"fault at write {k}: task #{i + 1} ({T}) is scheduled at/after the failing write but its target changed", det):
                    return
        for M in U.ALL_LOCS:
            if M != L and M not in planned:
                if not ex.prove(eq(U.getval(st.d, M), old[M]), f"fault at write {k}: unrelated location {M} changed", det):
                    return
    # the fault is gone: repeat the assignment
    try:
        U.assign(st.r, L, U.build(new_def, st.r, st.fr) if exprmode else v)
    except (Abort, Inconclusive):
        raise
    except Exception as e:
        ex.fail(f"fault-free repeat of the assignment to {L} raised {type(e).__name__}: {e}", {"history": list(st.hist)})
        return
    if exprmode:
        st.defs[L] = new_def
    else:
        st.last[L] = v
    st.hist.append(f"{L} = <same value>, no fault")
    note(ex, "repeat_ok")
    if not oracle_ok(ex, st, "after the fault-free repeat"):
        return
    try:
        st.m.verify()
    except Exception as e:
        ex.fail(f"verify() fails after recovery: {e}", {"history": list(st.hist)})
        return
    # recoverable also means: the manager takes further definitions and removals
    free = [M for M in LOCS if M not in st.defs and not U.is_cyclic(dict(st.defs, **{M: ("neg", ("loc", L))}))]
    if free and L not in U.reads(("loc", free[0])):
        M = free[0]
        try:
            U.assign(st.r, M, U.build(("neg", ("loc", L)), st.r, st.fr))
            st.defs[M] = ("neg", ("loc", L))
            st.m.unregister(U.getref(st.r, M))
            del st.defs[M]
            st.last[M] = U.getval(st.d, M)
        except (Abort, Inconclusive):
            raise
        except Exception as e:
            ex.fail(f"after recovery, defining/removing an expression raised {type(e).__name__}: {e}", {"history": list(st.hist)})
            return
        oracle_ok(ex, st, "after recovery and a further definition")
    if len(ex.samples) < 2:
        ex.samples.append({"history": list(st.hist)})


def cases(tier):
    import itertools
    out = []
    cand = [(t, dsc) for t in LOCS for dsc in U.candidates(t, LOCS, False)]
    builds = ["pure"] if tier == "quick" else ["pure", "compiled"]
    for b in builds:
        n3 = 0
        for k in (1, 2, 3):
            for combo in itertools.permutations(cand, k):
                if len({t for t, _ in combo}) < k or U.is_cyclic(dict(combo)):
                    continue
                if k == 3:
                    n3 += 1
                    if tier == "quick" and n3 % 40:
                        continue
                    if tier != "quick" and b == "compiled" and n3 % 4:
                        continue
                if k == 2 and tier == "quick" and (len(out) % 2):
                    continue
                defs = [list(c) for c in combo]
                free = [L for L in LOCS if L not in dict(combo)]
                for L in free:
                    out.append({"build": b, "defs": defs, "loc": L, "maxfaults": 2 if tier == "quick" else 3})
                    if k == 1 or (k == 2 and len(out) % 5 == 0):
                        out.append({"build": b, "defs": defs, "loc": L, "maxfaults": 2, "assign_expr": True})
                    if k == 1 or (k == 2 and len(out) % 3 == 0):
                        out.append({"build": b, "defs": defs, "loc": L, "maxfaults": 2, "fault": "interrupt"})
        for targets in (["b"], ["b", "n.x"], ["l0", "l1"], ["b", "n.x", "l0"], ["b", "n.x", "l0", "l1"]):
            for derived in (False, True):
                for reader in (None, "n.y"):
                    out.append({"mode": "knob", "build": b, "targets": targets, "derived_source": derived, "reader": reader,
                                "maxfaults": 2 if tier == "quick" or len(targets) > 3 else 3})
        out.append({"mode": "knob", "build": b, "targets": ["b"], "derived_source": True, "reader": "n.y", "maxfaults": 2, "fault": "interrupt"})
    return out

"""C13 - generated setter functions are equivalent to assigning through the manager.

Translation validation with the solver as equivalence checker.  For every manager
of <= 4 expression tasks over the shared universe (dict / list / attribute
containers + function container) and every non-empty set of <= 2 undefined
locations as arguments (both argument orders):
  * f = Manager.gen_fun(...) is executed (its body is the generated source, run by
    CPython) on symbolic argument values over symbolic containers;
  * a twin manager with the same definitions over a copy of the contents receives
    set_value per argument;
  * z3 proves every cell of the two container sets equal for all argument and
    initial values (division is excluded from the expression family, as the
    property excludes zero divisors);
  * Manager.mk_fun's text is parsed: after the argument assignments it must list
    exactly the tasks downstream of the arguments (computed by the harness from the
    public taskid/targets/dependencies), once each, producers before consumers.
"""
import itertools
import re

import z3

from symx.driver import get_xdeps
from symx.values import eq
from symx.core import Abort, Inconclusive
from . import universe as U
from . import c01, c03

ID = "C13"
LEVEL = "translation_validation"
LEVEL_TEXT = ("Translation validation: every generated program (gen_fun output for a manager and an argument set) is executed on symbolic "
              "inputs and z3 proves its final container state equal to that of assignment through the manager, for all argument and initial "
              "values; mk_fun's text is checked against the downstream closure and its order. Bounded by the number of tasks/arguments.")
FUNCTIONS = [
    "tasks.py:Manager.mk_fun", "tasks.py:Manager.gen_fun", "tasks.py:Manager.find_tasks", "tasks.py:ExprTask.__repr__",
    "tasks.py:Manager.set_value", "refs.py:ItemRef.__repr__", "refs.py:AttrRef.__repr__", "refs.py:BinOpExpr.__repr__",
    "refs.py:CallRef.__repr__", "refs.py:BuiltinRef.__repr__",
]
ASSUMPTIONS = c01.ASSUMPTIONS[:3] + [
    "universe with one member per nested container except the dedicated nested case (no false ordering cycle: open finding C01-false-cycle does not apply)",
    "the generated function runs on the raw containers; the twin manager runs over a copy holding the same symbolic values",
]
BOUNDS = {
    "quick": "every acyclic manager of <=3 definitions over {a,b,c,n.x,l0} built from 6 expression shapes (mul, neg, abs, add, sub, call) in every registration order (3-definition managers sampled 1 in 6) "
             "+ 4 four-task graphs (chain, diamond, two-argument join, shared); argument sets of size 1 and 2 (ordered)",
    "thorough": "all 3-definition managers, both builds, abs/round builtins and computed keys in definitions",
}
OUTSIDE = "more than 4 tasks or 2 arguments; division by zero (excluded by the property)"
REQUIRED_CLASSES = ["programs", "two_arguments", "text_checked", "regenerated_after_redefinition", "generated_while_frozen"]
PROFILE_CASES = 4
TASKS_PER_CHILD = 50
LOCS = ["a", "b", "c", "n.x", "l0"]

FOUR = {
    "chain4": [("b", ("mul", ("loc", "a"), ("const", 2))), ("c", ("neg", ("loc", "b"))), ("n.x", ("add", ("loc", "c"), ("const", 1))), ("l0", ("abs", ("loc", "n.x")))],
    "diamond": [("b", ("mul", ("loc", "a"), ("const", 2))), ("c", ("neg", ("loc", "a"))), ("n.x", ("add", ("loc", "b"), ("loc", "c"))), ("l0", ("sub", ("loc", "n.x"), ("loc", "a")))],
    "join2": [("c", ("mul", ("loc", "b"), ("const", 2))), ("n.x", ("add", ("loc", "a"), ("loc", "c"))), ("l0", ("call", ("loc", "n.x"), ("loc", "b")))],
    "shared": [("c", ("add", ("loc", "a"), ("loc", "b"))), ("n.x", ("add", ("loc", "a"), ("loc", "b"))), ("l0", ("sub", ("loc", "c"), ("loc", "n.x")))],
}


# printing-sensitive shapes: unary results below builtins / as a power base, parameters, nested calls
PRINTING = {
    "floor_neg": [("b", ("floor", ("neg", ("loc", "a")))), ("c", ("ceil", ("neg", ("loc", "b"))))],
    "inv_pow": [("b", ("pow", ("inv", ("loc", "a")), ("const", 2))), ("c", ("pow", ("pos", ("neg", ("loc", "a"))), ("const", 2)))],
    "neg_pow": [("b", ("pow", ("neg", ("loc", "a")), ("const", 2))), ("c", ("pow", ("const", -3), ("abs", ("loc", "a"))))],
    "round_trunc": [("b", ("round2", ("neg", ("loc", "a")), 1)), ("c", ("trunc", ("sub", ("const", 0), ("loc", "a")))), ("l0", ("sub", ("loc", "b"), ("neg", ("loc", "c"))))],
    "call_nested": [("b", ("call", ("neg", ("loc", "a")), ("abs", ("loc", "c")))), ("l0", ("call", ("loc", "b"), ("call", ("loc", "a"), ("const", 2))))],
}


def note(ex, k, n=1):
    ex.notes[k] = ex.notes.get(k, 0) + n


def run_case(ex, case):
    st = c03.HState(ex, case["build"])
    st.fr._owner.g = st.g
    for (t, dsc) in case["defs"]:
        st.apply(("expr", t, c01._tup(dsc)))
    tw = st.fork()
    free = [L for L in LOCS if L not in st.defs]
    args = case["args"]
    if any(a not in free for a in args):
        return
    if not generate_and_compare(ex, case, st, tw, args, ""):
        return
    red = case.get("redefine")
    if red:
        # a setter was generated before; one definition is replaced by another route than plain
        # assignment (load / unregister + assign / register), then a setter is generated again
        t, dsc = red["target"], c01._tup(red["dsc"])
        ops = {"load": [("load", t, dsc, True)], "unreg_assign": [("unreg", t), ("expr", t, dsc)],
               "unreg_register": [("unreg", t), ("register", t, dsc)], "assign": [("expr", t, dsc)]}[red["how"]]
        for w in (st, tw):
            for op in ops:
                w.apply(op)
        note(ex, "regenerated_after_redefinition")
        generate_and_compare(ex, case, st, tw, args, f" (second setter, after {t} was redefined by {red['how']})", suffix="2")


def generate_and_compare(ex, case, st, tw, args, tag, suffix=""):
    names = [f"x{i}" for i in range(len(args))]
    kw = {nm: U.getref(st.r, L) for nm, L in zip(names, args)}
    det = {"definitions": {k: U.show(v) for k, v in st.defs.items()}, "arguments": list(args)}
    frozen = bool(case.get("frozen"))
    try:
        if frozen:
            # setters are generated (and called) while the tree is frozen, the graph is edited in between
            st.m.freeze_tree()
            tw.m.freeze_tree()
            note(ex, "generated_while_frozen")
        src = st.m.mk_fun("setter", **kw)
        f = st.m.gen_fun("setter", **kw)
    except (Abort, Inconclusive):
        raise
    except Exception as e:
        ex.fail(f"gen_fun/mk_fun raised {type(e).__name__}: {e}{tag}", det)
        return False
    det["source"] = src
    note(ex, "programs")
    if len(args) == 2:
        note(ex, "two_arguments")
    mkv = ex.real if case.get("real_args") else ex.int
    vals = [mkv(f"arg{suffix}{i}") for i in range(len(args))]
    def _out(fn):
        try:
            fn()
            return None
        except (Abort, Inconclusive):
            raise
        except Exception as e:
            return type(e).__name__

    def _assign_all():
        for L, v in zip(args, vals):
            U.assign(tw.r, L, v)
    o1 = _out(lambda: f(*vals))
    o2 = _out(_assign_all)
    if frozen:
        st.m.unfreeze_tree()
        tw.m.unfreeze_tree()
    if o1 != o2:
        ex.fail(f"the generated function gives {o1 or 'a result'} where assignment through the manager gives {o2 or 'a result'}{tag}", det)
        return False
    if o1 is not None:
        return False
    for M in U.ALL_LOCS:
        if not ex.prove(eq(U.getval(st.d, M), U.getval(tw.d, M)),
                        f"after the generated function, location {M} differs from assignment through the manager{tag}", det):
            return False
    # the text: argument assignments, then the downstream tasks once each in dependency order
    lines = [ln.strip() for ln in src.split("\n")[1:]]
    head, body = lines[:len(args)], lines[len(args):]
    note(ex, "text_checked")
    tasks = list(st.m.tasks.values())
    pub = {str(t.taskid): ({str(x) for x in t.targets}, {str(x) for x in t.dependencies}) for t in tasks}
    chain = set()
    for L in args:
        chain |= {str(x) for x in U.getref(st.r, L)._get_dependencies()}
    start = {i for i in pub if pub[i][1] & chain}
    edges = {i: {j for j in pub if j != i and pub[i][0] & pub[j][1]} for i in pub}
    reach, todo = set(), list(start)
    while todo:
        i = todo.pop()
        if i not in reach:
            reach.add(i)
            todo.extend(edges[i])
    listed = [ln.split(" = ", 1)[0] for ln in body]
    if sorted(listed) != sorted(reach):
        ex.fail(f"mk_fun lists tasks {listed}, the tasks downstream of the arguments are {sorted(reach)}{tag}", det)
        return False
    pos = {t: k for k, t in enumerate(listed)}
    for i in reach:
        for j in edges[i] & reach:
            if pos[i] > pos[j]:
                ex.fail(f"mk_fun lists {j} before {i}, which produces one of its inputs{tag}", det)
                return False
    for nm, L, ln in zip(names, args, head):
        if ln != f"{U.getref(st.r, L)} = {nm}":
            ex.fail(f"mk_fun argument line {ln!r} does not assign {nm} to {L}", det)
            return False
    if len(ex.samples) < 2:
        ex.samples.append({"source": src})
    return True


def cases(tier):
    out = []
    builds = ["pure"] if tier == "quick" else ["pure", "compiled"]
    cand = [(t, dsc) for t in LOCS for dsc in U.candidates(t, LOCS, True)
            if not (dsc[0] == "add" and dsc[2] == ("const", 1))]
    for b in builds:
        mans = [[list(x) for x in v] for v in FOUR.values()]
        for defs in PRINTING.values():
            defs = [list(x) for x in defs]
            free = [L for L in LOCS if L not in {t for t, _ in defs}]
            for a in free[:2]:
                for real in (False, True):
                    out.append({"build": b, "defs": defs, "args": [a], "real_args": real})
        n = 0
        for k in (1, 2, 3):
            for combo in itertools.permutations(cand, k):
                if len({t for t, _ in combo}) < k or U.is_cyclic(dict(combo)):
                    continue
                n += 1
                if k == 2 and tier == "quick" and n % 7:
                    continue
                if k == 3 and n % (1500 if tier == "quick" else 60):
                    continue
                mans.append([list(c) for c in combo])
        # a second setter generated after one definition was replaced
        nred = 0
        for defs in mans:
            free = [L for L in LOCS if L not in {t for t, _ in defs}]
            if not free or len(defs) < 2:
                continue
            nred += 1
            if len(defs) < 4 and nred % (9 if tier == "quick" else 3):
                continue
            for ti in range(len(defs)):
                t = defs[ti][0]
                for how in ("load", "unreg_assign", "unreg_register", "assign"):
                    out.append({"build": b, "defs": defs, "args": [free[0]],
                                "redefine": {"target": t, "dsc": ["sub", ["loc", free[0]], ["const", 3]], "how": how}})
                out.append({"build": b, "defs": defs, "args": [free[0]], "frozen": True,
                            "redefine": {"target": t, "dsc": ["sub", ["loc", free[0]], ["const", 3]], "how": "assign"}})
        for defs in mans:
            free = [L for L in LOCS if L not in {t for t, _ in defs}]
            for a in free:
                out.append({"build": b, "defs": defs, "args": [a]})
            for a, c in itertools.permutations(free, 2):
                out.append({"build": b, "defs": defs, "args": [a, c]})
    return out

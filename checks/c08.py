"""C08 - table row selection follows the documented selector semantics, in table order.

Real table.py code.  Numeric column values and both bounds of value ranges are
symbolic (z3 Int): `rows[lo:hi:'s']`, `rows[lo::'s']`, `rows[:hi:'s']` run
through the real numpy-object-array comparisons, fork per row, and z3 proves on
every path that row i is selected  iff  lo <= s[i] <= hi (either bound optional).
Every other selector form (positions, position lists, masks, case-insensitive
regex with ::count and <</>> shifts, name spans) is concrete text/ints and is
compared with a reference selector written here; data cells are symbolic tags so
that "exactly these rows, in table order" is an identity on cells.  Composition
rows[s1, s2] == rows[s1].rows[s2], rows.indices / rows.mask agreement, and every
iteration order of the name set inside the regex branch (NDSet: all hash seeds)
are covered.
"""
import itertools
import re

import numpy as np
import z3

from symx.driver import get_xdeps
from symx.values import eq, tobool, SymBool
from symx.core import Abort, Inconclusive

ID = "C08"
LEVEL = "model_checking"
FUNCTIONS = [
    "table.py:Table._get_row_indices", "table.py:Table._get_regexp_indices", "table.py:Table._select_rows",
    "table.py:_RowView.__getitem__", "table.py:_RowView._make_view", "table.py:Indices.__getitem__",
    "table.py:Mask.__getitem__", "table.py:_View.get_indices", "table.py:Table._get_row_cache",
    "table.py:Table._get_row_index", "table.py:Table._get_row_where_col",
]
ASSUMPTIONS = [
    "column values and range bounds are Python ints (z3 Int); index names, regular expressions, positions and masks are concrete and enumerated",
    "regular-expression matching itself is CPython's re (trusted); names are lower-case, patterns include upper-case text to exercise IGNORECASE",
    "shifts (<<k, >>k) landing outside the table are outside the property",
    "table.py is loaded through an AST pass that makes the name set in _get_regexp_indices an NDSet (all iteration orders)",
]
BOUNDS = {
    "quick": "every index column over {a,b,c} (up to renaming) with 0..3 rows plus three 4-row tables, and four tables derived as t0 + u after name lookups on t0; every selector of the generated family (positions, lists, all masks, 14 regex forms, name spans, 4 value-range forms with symbolic bounds); "
             "composition law for every pair (s1 any form, s2 from a 9-element subset); 5 tables whose names interact with the regular-expression semantics (case twins, names that match siblings when read as a pattern, regex-special characters) with every name / NAME / name::k / name>>1 as selector; value ranges over fixed-width numpy columns (10 dtypes, every column of 1..3 cells over a 3-4 value pool of type extremes and wrap-around values, plus 5-8 row sorted/unsorted/constant columns): symbolic bounds decided by z3, and every pair of concrete bounds from the pool",
    "thorough": "0..5 rows; composition for all pairs of selectors on tables of <= 4 rows (5-row tables: every selector, rows.indices / rows.mask agreement, no composition); typed columns of 1..4 cells",
}
OUTSIDE = "tables with more than 5 rows (8 for the typed columns); user regular expressions beyond the generated family; float columns (reals) in ranges other than NaN cells, NaN bounds and the typed float32/float64 pools; typed cells outside the pools"
REQUIRED_CLASSES = ["range_checked", "nan_cell", "regex_checked", "composition", "indices_mask", "keyerror", "empty_result", "typed_range_symbolic_bounds", "typed_range_concrete_bounds", "names_as_selectors"]
PROFILE_CASES = 6
TASKS_PER_CHILD = 200
ALPHA = ["a", "b", "c"]


def note(ex, k, n=1):
    ex.notes[k] = ex.notes.get(k, 0) + n


def occ_index(names, name, count):
    occ = [i for i, x in enumerate(names) if x == name]
    if count < 0:
        count += len(occ)
    if 0 <= count < len(occ):
        return occ[count]
    return None


def ref_regex(names, text):
    """Reference for a string selector. Returns list of indices, 'KeyError' or 'outside'."""
    offset = 0
    m = re.fullmatch(r"(.*?)(<<|>>)([+-]?\d+)", text)
    body = text
    if m:
        body = m.group(1)
        offset = -int(m.group(3)) if m.group(2) == "<<" else int(m.group(3))
    count = None
    m = re.fullmatch(r"(.*?)::([+-]?\d+)", body)
    if m:
        body, count = m.group(1), int(m.group(2))
    rx = re.compile(body, re.IGNORECASE)
    match = [i for i, nn in enumerate(names) if rx.fullmatch(nn)]
    if count is None:
        idx = match
    else:
        idx = []
        for nm in sorted({names[i] for i in match}):
            j = occ_index(names, nm, count)
            if j is not None:
                idx.append(j)
        idx.sort()
    idx = [i + offset for i in idx]
    if any(i < 0 or i >= len(names) for i in idx):
        return "outside"
    return idx


def name_pos(names, text):
    """first-occurrence style resolution of a name / name::count used in spans"""
    m = re.fullmatch(r"(.*?)::([+-]?\d+)", text)
    if m:
        return occ_index(names, m.group(1), int(m.group(2)))
    return occ_index(names, text, 0)


def selectors(ex, names, sym):
    """(description, selector, reference) ; reference: list | 'KeyError' | ('range', lo, hi)"""
    n = len(names)
    out = []
    for i in range(-n, n):
        out.append((f"pos {i}", i, [i % n]))
    for lst in ([0], [n - 1, 0], list(range(n)), [0, 0], []):
        if all(0 <= i < n for i in lst):
            out.append((f"list {lst}", list(lst), list(lst)))
    for bits in itertools.product([False, True], repeat=n):
        if n:
            out.append((f"mask {bits}", list(bits), [i for i, b in enumerate(bits) if b]))
    out.append(("slice 1:", slice(1, None), list(range(n))[1:]))
    out.append(("slice ::-1", slice(None, None, -1), list(range(n))[::-1]))
    out.append(("None", None, list(range(n))))
    for rx in ["a", "A", "a.*", ".*", "b|c", "zz", "[ab]", "a::0", "a::1", ".*::0", ".*::1", ".*::-1", "[bc]::-1", "B::0",
               "a<<1", "a>>1", ".*::0>>1", "b::-1<<1", "zz::0", "zz::-1"]:
        out.append((f"regex {rx!r}", rx, ref_regex(names, rx)))
    for a, b in [("a", "b"), ("b", "a"), ("a", "a"), ("a", "c"), ("a::1", "b"), ("a", "b::-1"), ("zz", "a"), (None, "b"), ("a", None)]:
        pa = name_pos(names, a) if a is not None else 0
        pb = name_pos(names, b) if b is not None else n - 1
        if (a is not None and pa is None) or (b is not None and pb is None):
            ref = "KeyError"
        else:
            ref = list(range(pa, pb + 1))
        out.append((f"span {a!r}:{b!r}", slice(a, b), ref))
    lo, hi = sym["lo"], sym["hi"]
    out.append(("range lo:hi:'s'", slice(lo, hi, "s"), ("range", lo, hi)))
    out.append(("range lo::'s'", slice(lo, None, "s"), ("range", lo, None)))
    out.append(("range :hi:'s'", slice(None, hi, "s"), ("range", None, hi)))
    out.append(("range ::'s'", slice(None, None, "s"), list(range(n))))
    out.append(("range 0:hi:'s'", slice(0, hi, "s"), ("range", 0, hi)))
    out.append(("range lo:0:'s'", slice(lo, 0, "s"), ("range", lo, 0)))
    # a NaN bound compares false with every value: nothing is selected
    out.append(("range nan:hi:'s'", slice(float("nan"), hi, "s"), []))
    out.append(("range lo:nan:'s'", slice(lo, float("nan"), "s"), []))
    return out


def make_table(ex, xd, names, nan=()):
    n = len(names)
    data = {"name": np.array(names, dtype=object) if n else np.array([], dtype=object),
            "s": np.array([float("nan") if i in nan else ex.int(f"s{i}") for i in range(n)], dtype=object),
            "w": np.array([ex.int(f"w{i}") for i in range(n)], dtype=object)}
    return xd.Table(data, index="name"), data


def select(t, sel):
    """rows[sel] -> (table or exception name)"""
    try:
        return t.rows[sel]
    except KeyError:
        return "KeyError"
    except IndexError:
        return "IndexError"
    except (Abort, Inconclusive):
        raise
    except Exception as e:
        return type(e).__name__


def check_rows(ex, res, srcdata, idx, desc, det):
    """res is a table; its rows must be exactly source rows idx, in that order (cell identity)."""
    if len(res) != len(idx):
        ex.fail(f"{desc}: {len(res)} rows selected, expected rows {idx}", det)
        return False
    for col in ("name", "s", "w"):
        got = list(res[col])
        for k, i in enumerate(idx):
            want = srcdata[col][i]
            if got[k] is want:
                continue
            if col == "name":
                if got[k] != want:
                    ex.fail(f"{desc}: row {k} of the result is not source row {i}", det)
                    return False
            elif not ex.prove(eq(got[k], want), f"{desc}: cell {col}[{k}] of the result is not source cell {col}[{i}]", det):
                return False
    return True


def decide_range(ex, t, data, ref, resolved_idx, desc, det):
    """z3: row i selected iff lo <= s[i] <= hi, and order is table order."""
    _, lo, hi = ref
    n = len(data["s"])
    if sorted(resolved_idx) != list(resolved_idx):
        ex.fail(f"{desc}: rows not in table order: {list(resolved_idx)}", det)
        return False
    note(ex, "range_checked")
    for i in range(n):
        conds = []
        if isinstance(data["s"][i], float) and data["s"][i] != data["s"][i]:
            # a NaN cell satisfies no comparison
            note(ex, "nan_cell")
            if i in resolved_idx:
                ex.fail(f"{desc}: row {i} selected although s[{i}] is NaN", det)
                return False
            continue
        if lo is not None:
            conds.append(tobool(lo <= data["s"][i]))
        if hi is not None:
            conds.append(tobool(data["s"][i] <= hi))
        inr = z3.And(*conds) if conds else z3.BoolVal(True)
        if i in resolved_idx:
            ok = ex.prove(inr, f"{desc}: row {i} selected although not (lo <= s[{i}] <= hi)", det)
        else:
            ok = ex.prove(z3.Not(inr), f"{desc}: row {i} not selected although lo <= s[{i}] <= hi", det)
        if not ok:
            return False
    return True


def resolve(ex, t, data, sel, ref, desc, det):
    """Run rows[sel]; compare with the reference; return the list of source row
    indices selected on this path (or None when KeyError/outside/failed)."""
    res = select(t, sel)
    if isinstance(ref, str) and ref == "outside":
        return None
    if ref == "KeyError":
        note(ex, "keyerror")
        if res != "KeyError":
            ex.fail(f"{desc}: expected KeyError, got {res if isinstance(res, str) else 'a table of %d rows' % len(res)}", det)
            return "failed"
        return None
    if isinstance(res, str):
        ex.fail(f"{desc}: raised {res}, expected rows {ref}", det)
        return "failed"
    if isinstance(ref, tuple):
        # symbolic range: the selected rows are concrete on this path; identify them by cell identity
        wcol = list(res["w"])
        src = list(data["w"])
        idx = []
        for c in wcol:
            found = [i for i, x in enumerate(src) if x is c]
            if len(found) != 1:
                ex.fail(f"{desc}: result cell is not a source cell", det)
                return "failed"
            idx.append(found[0])
        if not decide_range(ex, t, data, ref, idx, desc, det):
            return "failed"
        if not check_rows(ex, res, data, idx, desc, det):
            return "failed"
        return idx
    if not ref:
        note(ex, "empty_result")
    if isinstance(sel, str):
        note(ex, "regex_checked")
    if not check_rows(ex, res, data, ref, desc, det):
        return "failed"
    return list(ref)


# fixed-width numpy columns in value ranges: the cells are concrete (a numpy array of a fixed-width dtype
# cannot hold a symbol) and drawn from an adversarial pool per dtype (extremes of the type, values whose
# differences wrap around, unsorted and sorted columns); the bounds are symbolic (z3 decides "selected iff
# lo <= s[i] <= hi" for every pair of bounds) and, in a second pass, every pair of pool values / None
TYPED_POOLS = {
    "uint8": [0, 1, 3, 250], "int8": [-128, -1, 0, 127], "uint16": [0, 2, 65535], "int16": [-32768, 5, 32767],
    "uint32": [0, 7, 4294967295], "uint64": [0, 9, 2 ** 63], "int64": [-2 ** 63, -1, 2 ** 63 - 1],
    "int32": [-2 ** 31, 0, 2 ** 31 - 1], "float32": [-1.5, 0.0, 0.5, 2.0 ** 127], "float64": [-2.5, 0.0, 1e-300, 1e300],
}


def run_typed(ex, case):
    xd = get_xdeps("pure", "start_set_only")
    dt = case["dtype"]
    pool = TYPED_POOLS[dt]
    isf = dt.startswith("float")
    cells = list(case["cells"])
    n = len(cells)
    names = ["abc"[i % 3] for i in range(n)]
    col = np.array(cells, dtype=dt)
    pyvals = [c.item() for c in col]
    w = [ex.int(f"w{i}") for i in range(n)]

    def mk():
        return xd.Table({"name": np.array(names, dtype=object), "s": col.copy(), "w": np.array(w, dtype=object)}, index="name")

    def rows_of(res):
        idx = []
        for c in list(res["w"]):
            found = [i for i, x in enumerate(w) if x is c]
            if len(found) != 1:
                return None
            idx.append(found[0])
        return idx
    det = {"dtype": dt, "column": [repr(v) for v in pyvals]}
    lo = ex.real("lo") if isf else ex.int("lo")
    hi = ex.real("hi") if isf else ex.int("hi")
    for desc, sel, blo, bhi in (("lo:hi:'s'", slice(lo, hi, "s"), lo, hi), ("lo::'s'", slice(lo, None, "s"), lo, None),
                                (":hi:'s'", slice(None, hi, "s"), None, hi)):
        t = mk()
        res = select(t, sel)
        d = f"rows[{desc}] on a {dt} column"
        if isinstance(res, str):
            ex.fail(f"{d}: raised {res}", det)
            return
        idx = rows_of(res)
        if idx is None:
            ex.fail(f"{d}: result cell is not a source cell", det)
            return
        note(ex, "typed_range_symbolic_bounds")
        if not decide_range(ex, t, {"s": pyvals}, ("range", blo, bhi), idx, d, det):
            return
        try:
            ind = [int(i) for i in np.atleast_1d(t.rows.indices[sel])]
            msk = [i for i, b in enumerate(t.rows.mask[sel]) if b]
        except (Abort, Inconclusive):
            raise
        except Exception as e:
            ex.fail(f"{d}: rows.indices/mask raised {type(e).__name__}: {e}", det)
            return
        if ind != idx or msk != idx:
            ex.fail(f"{d}: rows.indices {ind} / rows.mask {msk} but rows[...] selects {idx}", det)
            return
    if case.get("concrete_bounds"):
        bounds = [None] + sorted(set(pool + [pool[0] + 1, pool[-1] - 1] + ([0.25] if isf else [])))
        for blo in bounds:
            for bhi in bounds:
                t = mk()
                res = select(t, slice(blo, bhi, "s"))
                d = f"rows[{blo!r}:{bhi!r}:'s'] on a {dt} column"
                if isinstance(res, str):
                    ex.fail(f"{d}: raised {res}", det)
                    return
                idx = rows_of(res)
                want = [i for i, v in enumerate(pyvals) if (blo is None or blo <= v) and (bhi is None or v <= bhi)]
                note(ex, "typed_range_concrete_bounds")
                if idx != want:
                    ex.fail(f"{d}: selected rows {idx}, a scan of the column {pyvals} gives {want}", det)
                    return


SPECIAL_TABLES = [
    # names that differ only in case; a name that, read as a regular expression, also matches a sibling;
    # a name that is a prefix of another; names with characters that are special in regular expressions
    ["q1", "d1", "Q1", "q1", "d2"], ["a.c", "abc", "d", "a.c"], ["ab", "a", "AB", "b", "a"], ["m|n", "m", "n", "m|n"], ["x+", "xx", "x+", "x"],
]


def run_special(ex, case):
    """string selectors that are literally names of the table, on tables whose names interact with the
    case-insensitive full-match regular-expression semantics"""
    xd = get_xdeps("pure", "start_set_only")
    names = SPECIAL_TABLES[case["table"]]
    t, data = make_table(ex, xd, names)
    # warm the name cache the way earlier lookups would
    for nm in names[:2]:
        try:
            t.rows.get_index(nm)
        except (KeyError, IndexError):
            pass
    sels = []
    for nm in dict.fromkeys(names):
        for rx in (nm, nm.upper(), nm.lower(), nm + "::0", nm + "::1", nm + "::-1", nm + ">>1", nm + "<<1", nm.upper() + "::0"):
            if rx not in sels:
                sels.append(rx)
    for rx in sels:
        try:
            ref = ref_regex(names, rx)
        except re.error:
            continue
        d1 = f"regex {rx!r}"
        det = {"index_column": names, "selector": d1}
        note(ex, "names_as_selectors")
        # precedence of the library: 'name::count' whose name part is literally a name of the index column is
        # the addressing form of the Table docstring ('name::count<<offset') and resolves that exact name; only
        # otherwise is the name part a pattern.  The property's quantifier (3-name alphabets) never has a literal
        # name that, read as a pattern, matches another name, so it does not fix this case: the reference follows
        # the precedence here.  Selectors WITHOUT a count are patterns, whatever names the table holds.
        m = re.fullmatch(r"(.*?)::([+-]?\d+)((<<|>>)([+-]?\d+))?", rx)
        if m and m.group(1) in names and isinstance(ref, list):
            off = 0 if not m.group(3) else (-int(m.group(5)) if m.group(4) == "<<" else int(m.group(5)))
            j = occ_index(names, m.group(1), int(m.group(2)))
            if j is not None:
                ref = [j + off] if 0 <= j + off < len(names) else "outside"
                note(ex, "literal_name_with_count")
        idx1 = resolve(ex, t, data, rx, ref, f"rows[{d1}]", det)
        if idx1 == "failed":
            return
        if idx1 is not None:
            n = len(names)
            try:
                ind = [int(i) % n for i in np.atleast_1d(t.rows.indices[rx])]
                msk = [i for i, b in enumerate(t.rows.mask[rx]) if b]
            except (Abort, Inconclusive):
                raise
            except Exception as e:
                ex.fail(f"rows.indices/mask[{d1}] raised {type(e).__name__}: {e}", det)
                return
            if ind != idx1 or msk != sorted(set(idx1)):
                ex.fail(f"rows.indices[{d1}] = {ind} / rows.mask = {msk} but rows[...] selects {idx1}", det)
                return


def run_case(ex, case):
    if case.get("mode") == "typed":
        return run_typed(ex, case)
    if case.get("mode") == "special":
        return run_special(ex, case)
    xd = get_xdeps("pure", "start_set_only")
    names = case["pattern"]
    n = len(names)
    t, data = make_table(ex, xd, names, case.get("nan", ()))
    if case.get("derived"):
        # the table under test is t0 + u, built after a name lookup has been made on t0
        k = case["derived"]
        t0, d0 = make_table(ex, xd, names[:k])
        u_names = names[k:]
        nu = len(u_names)
        ud = {"name": np.array(u_names, dtype=object) if nu else np.array([], dtype=object),
              "s": np.array([ex.int(f"us{i}") for i in range(nu)], dtype=object),
              "w": np.array([ex.int(f"uw{i}") for i in range(nu)], dtype=object)}
        u = xd.Table(ud, index="name")
        for warm in ("a::0", ".*::-1"):
            try:
                t0.rows[warm]
                t0["w", names[0]] if k else None
            except (KeyError, IndexError):
                pass
        t = t0 + u
        data = {c: np.concatenate([d0[c], ud[c]]) for c in ("name", "s", "w")}
        names = list(data["name"])
        n = len(names)
    sym = {"lo": ex.int("lo"), "hi": ex.int("hi")}
    sels = selectors(ex, names, sym)
    i1 = case["s1"]
    if i1 >= len(sels):
        return
    d1, s1, r1 = sels[i1]
    det = {"index_column": names, "selector": d1}
    idx1 = resolve(ex, t, data, s1, r1, f"rows[{d1}]", det)
    if idx1 == "failed":
        return
    if idx1 is not None:
        # indices / mask describe the same rows
        note(ex, "indices_mask")
        try:
            ind = [int(i) % n if n else int(i) for i in np.atleast_1d(t.rows.indices[s1])]
            msk = list(t.rows.mask[s1])
        except (Abort, Inconclusive):
            raise
        except Exception as e:
            ex.fail(f"rows.indices/mask[{d1}] raised {type(e).__name__}: {e}", det)
            return
        if ind != idx1:
            ex.fail(f"rows.indices[{d1}] = {ind} but rows[...] selects {idx1}", det)
            return
        if [i for i, b in enumerate(msk) if b] != sorted(set(idx1)):
            ex.fail(f"rows.mask[{d1}] = {msk} but rows[...] selects {idx1}", det)
            return
    if idx1 is None or not case.get("compose", True):
        return
    # composition law: rows[s1, s2] == rows[s1].rows[s2]
    sub = t.rows[s1]
    subnames = [names[i] for i in idx1]
    subdata = {c: np.array([data[c][i] for i in idx1], dtype=object) for c in ("name", "s", "w")}
    sels2 = selectors(ex, subnames, sym)
    picks = case.get("s2list")
    for j, (d2, s2, r2) in enumerate(sels2):
        if picks is not None and not any(d2.startswith(p) for p in picks):
            continue
        det2 = {"index_column": names, "selector": d1, "second": d2}
        a = select(sub, s2)
        try:
            b = t.rows[s1, s2]
        except KeyError:
            b = "KeyError"
        except IndexError:
            b = "IndexError"
        except (Abort, Inconclusive):
            raise
        except Exception as e:
            ex.fail(f"rows[{d1}, {d2}] raised {type(e).__name__}: {e}", det2)
            return
        note(ex, "composition")
        if isinstance(r2, str) and r2 == "outside":
            continue
        if isinstance(a, str) or isinstance(b, str):
            if a != b:
                ex.fail(f"rows[{d1}, {d2}] gives {b if isinstance(b, str) else 'a table'} but rows[{d1}].rows[{d2}] gives {a if isinstance(a, str) else 'a table'}", det2)
                return
            continue
        if len(a) != len(b):
            ex.fail(f"rows[{d1}, {d2}] has {len(b)} rows, rows[{d1}].rows[{d2}] has {len(a)}", det2)
            return
        for col in ("name", "s", "w"):
            for x, y in zip(list(a[col]), list(b[col])):
                if x is y:
                    continue
                if col == "name":
                    if x != y:
                        ex.fail(f"rows[{d1}, {d2}] != rows[{d1}].rows[{d2}] (names differ)", det2)
                        return
                elif not ex.prove(eq(x, y), f"rows[{d1}, {d2}] != rows[{d1}].rows[{d2}] (cell {col})", det2):
                    return
        # and the second step itself follows the reference on the sub-table
        if isinstance(r2, list):
            if not check_rows(ex, a, subdata, r2, f"rows[{d1}].rows[{d2}]", det2):
                return
    if len(ex.samples) < 1:
        ex.samples.append({"index_column": names, "selector": d1, "rows": idx1})


S2_QUICK = ["pos 0", "pos -1", "mask", "regex 'a'", "regex '.*::-1'", "regex 'a.*'", "span 'a':'b'", "range lo:hi", "range :hi", "list [0]", "regex '.*::0>>1'"]


def cases(tier):
    out = []
    maxn = 3 if tier == "quick" else 5
    pats = []
    for n in range(0, maxn + 1):
        for pat in itertools.product(ALPHA, repeat=n):
            seen = []
            for x in pat:
                if x not in seen:
                    seen.append(x)
            if seen == ALPHA[:len(seen)]:
                pats.append(list(pat))
    if tier == "quick":
        pats += [["a", "b", "a", "b"], ["b", "a", "a", "c"], ["a", "a", "b", "a"]]
    derived = [(["a", "b", "a"], 2), (["a", "b", "c", "a"], 2), (["a", "a", "b", "c"], 3), (["b", "a", "b"], 1)]
    for pat in pats:
        n = len(pat)
        nsel = 2 * n + 5 + (2 ** n if n else 0) + 3 + 20 + 9 + 8
        for s1 in range(nsel):
            out.append({"pattern": pat, "s1": s1, "s2list": S2_QUICK if tier == "quick" else None,
                        "compose": n <= 3 or (tier != "quick" and n <= 4)})
    # NaN cells in the range column
    for pat, nan in ((["a"], [0]), (["a", "b"], [1]), (["a", "b", "a"], [0]), (["a", "b", "a"], [1, 2]), (["a", "a", "b", "c"], [0, 3])):
        n = len(pat)
        nsel = 2 * n + 5 + 2 ** n + 3 + 20 + 9 + 8
        for s1 in range(nsel):
            out.append({"pattern": pat, "nan": nan, "s1": s1, "s2list": ["range lo:hi", "range :hi", "range lo::", "mask"], "compose": n <= 3})
    for k in range(len(SPECIAL_TABLES)):
        out.append({"mode": "special", "table": k})
    for dt, pool in TYPED_POOLS.items():
        maxlen = 3 if tier == "quick" else 4
        for n in range(1, maxlen + 1):
            for cells in itertools.product(pool, repeat=n):
                out.append({"mode": "typed", "dtype": dt, "cells": list(cells), "concrete_bounds": n <= 3})
        # longer unsorted / sorted / constant columns
        for cells in ([pool[-1], pool[0], pool[1], pool[0], pool[1]], sorted(pool + pool), [pool[1]] * 4, sorted(pool + pool, reverse=True)):
            out.append({"mode": "typed", "dtype": dt, "cells": list(cells), "concrete_bounds": True})
    for pat, k in derived:
        n = len(pat)
        nsel = 2 * n + 5 + 2 ** n + 3 + 20 + 9 + 8
        for s1 in range(nsel):
            out.append({"pattern": pat, "derived": k, "s1": s1, "s2list": S2_QUICK, "compose": False})
    return out

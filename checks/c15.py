"""C15 - the optimizer log is truthful: reload reproduces a row, steps never end worse.

Symbolic harness of C09/C10 driven through call sequences (engine decisions)
drawn from step(n) / solve() / reload(i) / tag() / enable / disable / clear_log.
For EVERY row i of the final log (z3, for all values, merit functions, steps):
  * reload(i) leaves container == row knobs (exact) and active flags == row flags;
  * the harness' own evaluation of the uninterpreted merit function at the row's
    knobs, masked as the row records, equals the row's penalty and target values;
for every step(take_best=True) call that returns normally: the point left is
within all tolerances, or its penalty is <= the penalty of every row logged during
that call (hence never worse than where the call started).
"""
import numpy as np
import z3

from symx.values import eq, tobool, SymReal, lift_real, SQRTF
from symx.core import Abort, Inconclusive
from . import optcommon as OC
from . import c09

ID = "C15"
LEVEL = "model_checking"
FUNCTIONS = c09.FUNCTIONS + ["optimize/optimize.py:Optimize.tag", "optimize/optimize.py:Optimize.clear_log",
                             "optimize/optimize.py:Optimize.enable", "optimize/optimize.py:Optimize.disable"]
ASSUMPTIONS = OC.STUBS + [
    "unit knob and target weights (exact reload; penalty = sqrt(sum of squared residuals of the active targets))",
    "the raw log (Optimize._log) is inspected instead of Optimize.log(), which only copies it into a Table",
]
BOUNDS = {
    "quick": "on every final log also get_knob_values(i) for every row and reload(tag=...) for every tag present (last row so tagged); 2 knobs x 1 target: step() on a matched point; disable(vary=1); knob 1 changed by hand; step(). 1 knob x 1 target: {step(1), step(1, take_best=False), solve()} followed by {reload(i), tag(), clear_log()}, and {reload, tag, clear_log} followed by any of the six calls; "
             "1 knob x 2 targets with target 1 initially disabled and the start point assumed to match target 0: solve()|step(1); enable(target=1); step(1); n_bisections=0",
    "thorough": "2x1 sequences of 2 calls, 1x1 sequences of 3 calls, step(2), n_bisections=1",
}
OUTSIDE = c09.OUTSIDE + "; rows of logs longer than those produced by 3 calls"
REQUIRED_CLASSES = ["row_reload_checked", "row_penalty_checked", "take_best_checked", "take_best_reload_taken", "failing_solve",
                    "get_knob_values_checked", "reload_by_tag_checked", "row_after_reload_checked"]
REPLAY_REALS = ["fraction"]
PROFILE_CASES = 2
TASKS_PER_CHILD = 10

CALLS = ["step", "step_nobest", "solve", "reload", "tag", "clear_log"]


def term(x):
    if isinstance(x, SymReal):
        return x.e
    return lift_real(x)


def expected_penalty(P, knobs, tact):
    tot = None
    for t in range(P.NT):
        if tact[t] != "y":
            continue
        e = P.f_at(t, knobs) - P.tvals[t]
        sq = e * e
        tot = sq if tot is None else tot + sq
    if tot is None:
        tot = 0.0
    if isinstance(tot, SymReal):
        return tot.sqrt()
    return float(np.sqrt(tot))


def do_call(ex, P, opt, name, info):
    if name == "step":
        start = len(opt._log["penalty"])
        opt.step(1)
        info["take_best_calls"].append((start, len(opt._log["penalty"])))
    elif name == "step_nobest":
        opt.step(1, take_best=False)
    elif name == "solve":
        opt.solve()
    elif name == "reload":
        n = len(opt._log["penalty"])
        opt.reload(ex.choose(n))
    elif name == "tag":
        opt.tag("mytag")
    elif name == "clear_log":
        opt.clear_log()
    elif name == "enable_t1":
        opt.enable(target=1)
    elif name == "disable_t1":
        opt.disable(target=1)
    elif name == "disable_v1":
        opt.disable(vary=1)
    elif name == "enable_v1":
        opt.enable(vary=1)
    elif name == "hand_k1":
        # the user changes a (disabled) knob directly in its container
        nv = ex.real(ex.name("hand"))
        ex.assume(tobool(P.lims[1][0] <= nv))
        ex.assume(tobool(nv <= P.lims[1][1]))
        P.d["k1"] = nv


def run_case(ex, case):
    P = OC.Problem(ex, case)
    try:
        opt = P.make_opt()
    except (Abort, Inconclusive):
        raise
    except Exception:
        raise Abort()
    if case.get("init_disable_t1"):
        opt.disable(target=1)
    if case.get("assume_matched_t0"):
        # focus: the start point already matches target 0 (an "earlier success" in one path)
        ex.assume(P.within_tol(0, P.knobs_now()))
    info = {"take_best_calls": []}
    seq = list(case["seq"])
    hist = []
    det = {"case": {k: v for k, v in case.items() if not k.startswith("_")}, "calls": hist}
    for name in seq:
        if name == "*":
            alphabet = case.get("second", CALLS)
            name = alphabet[ex.choose(len(alphabet))]
        hist.append(name)
        tb0 = len(info["take_best_calls"])
        try:
            do_call(ex, P, opt, name, info)
        except (Abort, Inconclusive):
            raise
        except Exception as e:
            oc = OC.classify(e)
            hist[-1] = f"{name} -> {oc}"
            if name == "solve":
                OC.note(ex, "failing_solve")
            if oc not in ("runtime_error", "limit_value_error", "value_error"):
                ex.fail(f"unexpected {oc} in {name}: {e}", det)
                return
            del info["take_best_calls"][tb0:]
            continue
        # take_best clause for a step() that returned normally
        if name == "step":
            start, end = info["take_best_calls"][-1]
            OC.note(ex, "take_best_checked")
            if opt._log["tag"][end - 1] == "take_best":
                OC.note(ex, "take_best_reload_taken")
            knobs = P.knobs_now()
            tact = "".join("y" if t.active else "n" for t in opt._err.targets)
            within = z3.And(*[P.within_tol(t, knobs) for t in range(P.NT) if tact[t] == "y"]) if "y" in tact else z3.BoolVal(True)
            pen_final = expected_penalty(P, knobs, tact)
            rows = range(start, end)          # rows logged during the call (the first one is the starting point)
            conds = []
            for j in rows:
                if j < 0:
                    continue
                conds.append(term(pen_final) <= term(opt._log["penalty"][j]))
            if not ex.prove(z3.Or(within, z3.And(*conds)),
                            "step(take_best=True) returned on a point that is neither within tolerance nor of minimum penalty among the rows logged during the call", det):
                return
    # every row of the final log
    log = opt._log
    nrows = len(log["penalty"])
    for i in range(nrows):
        knobs = list(log["knobs"][i])
        vact, tact = log["vary_active"][i], log["target_active"][i]
        OC.note(ex, "row_penalty_checked")
        det2 = dict(det, row=i)
        if not ex.prove(term(log["penalty"][i]) == term(expected_penalty(P, knobs, tact)),
                        f"row {i}: logged penalty differs from an independent evaluation at the row's knobs and masks", det2):
            return
        tv = log["targets"][i]
        for t in range(P.NT):
            if not ex.prove(eq(tv[t], P.f_at(t, knobs)), f"row {i}: logged target {t} differs from an independent evaluation at the row's knobs", det2):
                return
    for i in range(nrows):
        knobs = list(log["knobs"][i])
        vact, tact = log["vary_active"][i], log["target_active"][i]
        det2 = dict(det, row=i)
        try:
            opt.reload(i)
        except (Abort, Inconclusive):
            raise
        except Exception as e:
            ex.fail(f"reload({i}) raised {type(e).__name__}: {e}", det2)
            return
        OC.note(ex, "row_reload_checked")
        now = P.knobs_now()
        for k in range(P.NK):
            if not ex.prove(eq(now[k], knobs[k]), f"reload({i}) does not put knob {k} of row {i} back", det2):
                return
        va = "".join("y" if v.active else "n" for v in opt._err.vary)
        ta = "".join("y" if t.active else "n" for t in opt._err.targets)
        if va != vact or ta != tact:
            ex.fail(f"reload({i}) leaves flags {va}/{ta}, row {i} records {vact}/{tact}", det2)
            return
        # reload() logs the point it has just restored: that new row must be truthful too (masks as the
        # flags now are, penalty of the restored point under those masks)
        OC.note(ex, "row_after_reload_checked")
        if log["vary_active"][-1] != va or log["target_active"][-1] != ta:
            ex.fail(f"the row logged by reload({i}) records masks {log['vary_active'][-1]}/{log['target_active'][-1]} while the active flags are {va}/{ta}", det2)
            return
        if not ex.prove(term(log["penalty"][-1]) == term(expected_penalty(P, now, ta)),
                        f"the row logged by reload({i}) records a penalty that differs from an independent evaluation at the restored knobs and flags", det2):
            return
    # secondary read/reload entry points on the same log: get_knob_values(i), reload(tag=...), log()
    for i in range(nrows):
        try:
            kv = opt.get_knob_values(i)
        except (Abort, Inconclusive):
            raise
        except Exception as e:
            ex.fail(f"get_knob_values({i}) raised {type(e).__name__}: {e}", det)
            return
        OC.note(ex, "get_knob_values_checked")
        for k in range(P.NK):
            if not ex.prove(eq(kv[f"k{k}"], log["knobs"][i][k]), f"get_knob_values({i}) differs from row {i} of the log at knob {k}", dict(det, row=i)):
                return
    for tg in sorted({t for t in log["tag"][:nrows] if t}):
        last = max(i for i in range(nrows) if log["tag"][i] == tg)
        knobs = list(log["knobs"][last])
        vact, tact = log["vary_active"][last], log["target_active"][last]
        try:
            opt.reload(tag=tg)
        except (Abort, Inconclusive):
            raise
        except Exception as e:
            ex.fail(f"reload(tag={tg!r}) raised {type(e).__name__}: {e}", det)
            return
        OC.note(ex, "reload_by_tag_checked")
        now = P.knobs_now()
        for k in range(P.NK):
            if not ex.prove(eq(now[k], knobs[k]), f"reload(tag={tg!r}) does not put knob {k} of the last row tagged so (row {last}) back", dict(det, row=last)):
                return
        va = "".join("y" if v.active else "n" for v in opt._err.vary)
        ta = "".join("y" if t.active else "n" for t in opt._err.targets)
        if va != vact or ta != tact:
            ex.fail(f"reload(tag={tg!r}) leaves flags {va}/{ta}, row {last} records {vact}/{tact}", dict(det, row=last))
            return
    if len(ex.samples) < 2:
        ex.samples.append({"calls": list(hist), "rows": nrows})


def cases(tier):
    import sys
    from symx import driver
    mod = sys.modules[__name__]
    out = []
    base = {"nk": 1, "nt": 1}
    cheap = ["reload", "tag", "clear_log"]
    for a in CALLS:
        if a in ("step", "step_nobest", "solve"):
            c = dict(base, seq=[a, "*"], second=cheap, tag=f"1x1:{a}")
            out += driver.split_case(mod, c, 9)
        else:
            out += driver.split_case(mod, dict(base, seq=[a, "*"], tag=f"1x1:{a}"), 6)
    for first in ("solve", "step"):
        c = {"nk": 1, "nt": 2, "init_disable_t1": True, "assume_matched_t0": True,
             "seq": [first, "enable_t1", "step"], "tag": f"1x2:{first}"}
        out += driver.split_case(mod, c, 15)
    # a row must be truthful also when the cached solver state is stale w.r.t. a knob changed while disabled
    out += driver.split_case(mod, {"nk": 2, "nt": 1, "assume_matched_t0": True,
                                   "seq": ["step", "disable_v1", "hand_k1", "step"], "tag": "2x1:stale"}, 12)
    if tier != "quick":
        for a in ("step", "solve"):
            out += driver.split_case(mod, {"nk": 1, "nt": 1, "seq": [a, "*"], "second": ["step", "solve", "step_nobest"], "tag": "1x1:heavy"}, 14)
        for a in ("step", "solve"):
            out += driver.split_case(mod, {"nk": 2, "nt": 1, "seq": [a, "*"], "second": cheap, "tag": "2x1:2"}, 12)
        out += driver.split_case(mod, {"nk": 1, "nt": 1, "seq": ["step", "*"], "second": cheap, "n_bisections": 1, "tag": "1x1:bis"}, 10)
        out += driver.split_case(mod, {"nk": 1, "nt": 2, "init_disable_t1": True, "seq": ["solve", "enable_t1", "step"], "tag": "1x2:full"}, 14)
    return out

"""Shared universe for the Manager-level checks (C01 C02 C03 C11 C12 C13 C17 C18 C20).

Container `d` (label 'd'):  {'a','b','c': values, 'n': Obj(x,y,z), 'l': [v0,v1]}
Function container `f` (label 'f'): f.g = an uninterpreted function of 2 args.
Locations are named 'a','b','c','n.x','n.y','n.z','l0','l1'.
Expression descriptors (pure data, used by the independent pull-model oracle):
  ('loc', L) ('const', v) ('add',x,y) ('sub',x,y) ('mul',x,y) ('neg',x)
  ('abs',x) ('call',x,y)
"""
import copy

ALL_LOCS = ["a", "b", "c", "n.x", "n.y", "n.z", "l0", "l1", "K-1", "K-2"]


class Obj:
    def __init__(self, **k):
        self.__dict__.update(k)

    def __repr__(self):
        return f"Obj({self.__dict__})"


class UFunc:
    """picklable handle on the uninterpreted function `name` of the current explorer"""

    def __init__(self, name, nargs):
        self.name, self.nargs = name, nargs

    def __call__(self, *args, **kw):
        from symx import core
        # keyword arguments follow the positional ones in the order received (PEP 468): f(p, q=x) is f(p, x);
        # with several keywords each order of names is a function of its own
        names = list(kw)
        args = list(args) + [kw[k] for k in names]
        if len(names) > 1:
            return core.cur().func(self.name + "_kw_" + "_".join(names), len(args))(*args)
        return core.cur().func(self.name, self.nargs)(*args)

    def __reduce__(self):
        return (UFunc, (self.name, self.nargs))


class FContainer:
    """function container: f.g(p, q)"""

    def __init__(self, g):
        self.g = g

    @staticmethod
    def pair(x):
        return [x, x + 1]


def container_of(loc):
    if loc.startswith("n."):
        return "n"
    if loc.startswith("K-"):
        return "K"
    if loc.startswith("l") and len(loc) == 2 and loc[1].isdigit():
        return "l"
    return None


def make_contents(ex, locs=ALL_LOCS, prefix="i"):
    """Initial contents: one fresh symbolic int per location of ALL_LOCS."""
    v = {L: ex.int(f"{prefix}_{L}") for L in ALL_LOCS}
    d = {"a": v["a"], "b": v["b"], "c": v["c"],
         "n": Obj(x=v["n.x"], y=v["n.y"], z=v["n.z"]),
         "l": [v["l0"], v["l1"]],
         "__K": {-1: v["K-1"], -2: v["K-2"]}}    # registered as its own top-level container 'K'; hash(-1) == hash(-2)
    return d


def copy_contents(d):
    """independent containers holding the same (symbolic) values"""
    return {"a": d["a"], "b": d["b"], "c": d["c"], "n": Obj(x=d["n"].x, y=d["n"].y, z=d["n"].z),
            "l": list(d["l"]), "__K": dict(d["__K"])}


def getval(d, L):
    if L == "l":
        return d["l"]
    if L.startswith("n."):
        return getattr(d["n"], L[2:])
    if L.startswith("K-"):
        return d["__K"][int(L[1:])]
    if container_of(L) == "l":
        return d["l"][int(L[1])]
    return d[L]


def setraw(d, L, v):
    if L.startswith("K-"):
        d["__K"][int(L[1:])] = v
    elif L.startswith("n."):
        setattr(d["n"], L[2:], v)
    elif container_of(L) == "l":
        d["l"][int(L[1])] = v
    else:
        d[L] = v


def kref(r):
    """top-level container 'K' (dict with the hash-colliding keys -1 / -2) of r's manager; registered on demand"""
    m = r._manager
    if "K" not in m.containers:
        m.ref(r._owner["__K"], "K")
    return m.containers["K"]


def getref(r, L):
    if L == "l":
        return r["l"]
    if L.startswith("K-"):
        return kref(r)[int(L[1:])]
    if L.startswith("n."):
        return getattr(r["n"], L[2:])
    if container_of(L) == "l":
        return r["l"][int(L[1])]
    return r[L]


def assign(r, L, value):
    """Assignment through the reference API, as a user writes it."""
    if L == "l":
        r["l"] = value
    elif L.startswith("K-"):
        kref(r)[int(L[1:])] = value
    elif L.startswith("n."):
        setattr(r["n"], L[2:], value)
    elif container_of(L) == "l":
        r["l"][int(L[1])] = value
    else:
        r[L] = value


def build(desc, r, fr):
    """Real deferred expression from a descriptor."""
    k = desc[0]
    if k == "loc":
        return getref(r, desc[1])
    if k == "const":
        return desc[1]
    if k == "missing":
        return r["no_such_key"]
    if k == "neg":
        return -build(desc[1], r, fr)
    if k == "abs":
        return abs(build(desc[1], r, fr))
    if k == "call":
        return fr.g(build(desc[1], r, fr), build(desc[2], r, fr))
    if k in ("floor", "ceil", "trunc"):
        import math
        return getattr(math, k)(build(desc[1], r, fr))
    if k == "lidx":
        return r["l"][build(desc[1], r, fr)]
    if k == "mod":
        return build(desc[1], r, fr) % build(desc[2], r, fr)
    if k == "pair":
        return fr.pair(build(desc[1], r, fr))
    if k == "pidx":
        # item taken from a computed sub-expression (the owner of the ItemRef is an expression node)
        return fr.pair(build(desc[1], r, fr))[desc[2]]
    if k == "inv":
        return ~build(desc[1], r, fr)
    if k == "pos":
        return +build(desc[1], r, fr)
    if k == "round2":
        return round(build(desc[1], r, fr), desc[2])
    x, y = build(desc[1], r, fr), build(desc[2], r, fr)
    if k == "pow":
        return x ** y
    if k == "add":
        return x + y
    if k == "sub":
        return x - y
    if k == "mul":
        return x * y
    raise ValueError(k)


def ev(desc, d, g):
    """Independent pull-model evaluation of a descriptor on contents d."""
    k = desc[0]
    if k == "loc":
        return getval(d, desc[1])
    if k == "const":
        return desc[1]
    if k == "missing":
        raise KeyError("no_such_key")
    if k == "neg":
        return -ev(desc[1], d, g)
    if k == "abs":
        return abs(ev(desc[1], d, g))
    if k == "call":
        return g(ev(desc[1], d, g), ev(desc[2], d, g))
    if k in ("floor", "ceil", "trunc"):
        import math
        return getattr(math, k)(ev(desc[1], d, g))
    if k == "lidx":
        return d["l"][ev(desc[1], d, g)]
    if k == "mod":
        return ev(desc[1], d, g) % ev(desc[2], d, g)
    if k == "pair":
        x = ev(desc[1], d, g)
        return [x, x + 1]
    if k == "pidx":
        return ev(desc[1], d, g) + desc[2]
    if k == "inv":
        return ~ev(desc[1], d, g)
    if k == "pos":
        return +ev(desc[1], d, g)
    if k == "round2":
        return round(ev(desc[1], d, g), desc[2])
    x, y = ev(desc[1], d, g), ev(desc[2], d, g)
    if k == "pow":
        return x ** y
    if k == "add":
        return x + y
    if k == "sub":
        return x - y
    if k == "mul":
        return x * y
    raise ValueError(k)


def reads(desc, out=None):
    out = set() if out is None else out
    if desc[0] == "lidx":
        out.add("l0")
        out.add("l1")
    if desc[0] == "loc":
        out.add(desc[1])
    elif desc[0] != "const":
        for s in desc[1:]:
            if isinstance(s, tuple):
                reads(s, out)
    return out


def is_cyclic(defs):
    """Cycle in the data-flow graph loc -> locs read by its definition."""
    state = {}

    def go(L):
        if state.get(L) == 1:
            return True
        if state.get(L) == 2:
            return False
        state[L] = 1
        e = defs.get(L)
        rd = set(reads(e)) if e else set()
        if L in ("l0", "l1") and "l" in defs:
            rd.add("l")                      # the members are produced by the definition of the whole list
        r = any(go(x) for x in rd)
        state[L] = 2
        return r
    return any(go(L) for L in list(defs) + ["l0", "l1"])


def candidates(t, locs, rich=False):
    """Expression candidates G(t) over the other locations (descriptors).
    Unary shapes over every other location, binary shapes over unordered pairs;
    the operator rotates with the position so that all forms occur."""
    others = [L for L in locs if L != t]
    out = []
    uforms = ["mul2", "neg", "abs", "add1"]
    bforms = ["add", "sub", "call"]
    for i, p in enumerate(others):
        fs = uforms if rich else [uforms[i % len(uforms)]]
        for f in fs:
            P = ("loc", p)
            out.append({"mul2": ("mul", P, ("const", 2)), "neg": ("neg", P), "abs": ("abs", P),
                        "add1": ("add", P, ("const", 1))}[f])
    k = 0
    for i, p in enumerate(others):
        for q in others[i + 1:]:
            fs = bforms if rich else [bforms[k % len(bforms)]]
            k += 1
            for f in fs:
                out.append((f, ("loc", p), ("loc", q)))
    return out


def show(desc):
    k = desc[0]
    if k == "loc":
        return desc[1]
    if k == "const":
        return str(desc[1])
    if k == "missing":
        return "d['no_such_key']"
    if k in ("neg", "abs", "floor", "ceil", "trunc", "inv", "pos"):
        return f"{k}({show(desc[1])})"
    if k == "round2":
        return f"round({show(desc[1])},{desc[2]})"
    if k == "lidx":
        return f"l[{show(desc[1])}]"
    if k == "mod":
        return f"({show(desc[1])} % {show(desc[2])})"
    if k == "pair":
        return f"pair({show(desc[1])})"
    if k == "pidx":
        return f"pair({show(desc[1])})[{desc[2]}]"
    if k == "pow":
        return f"({show(desc[1])} ** {show(desc[2])})"
    if k == "call":
        return f"g({show(desc[1])},{show(desc[2])})"
    return f"({show(desc[1])} {dict(add='+', sub='-', mul='*')[k]} {show(desc[2])})"


# --------------------------------------------------------------------- graph facts
def chain_keys(ref):
    """str of ref and of its owner chain (below the root container)."""
    out = []
    while hasattr(ref, "_owner") and hasattr(ref._owner, "_owner"):
        out.append(str(ref))
        ref = ref._owner
    return out


def false_cycle_tasks(mgr):
    """Facts used by the signature of the open C01 finding.  The data-flow graph
    of every universe explored here is acyclic by construction, so any cycle of
    the *ordering* graph (derived from the public taskid/targets/dependencies of
    the registered tasks: A -> B iff A.targets & B.dependencies) exists only
    because tasks on members of a nested container both 'target' and read the
    container.  Returns the taskids (as text) lying on such a cycle of >= 2
    tasks."""
    tasks = list(mgr.tasks.values())
    ids = [str(t.taskid) for t in tasks]
    tg = {str(t.taskid): {str(x) for x in t.targets} for t in tasks}
    dp = {str(t.taskid): {str(x) for x in (t.dependencies or ())} for t in tasks}
    edges = {a: {b for b in ids if b != a and tg[a] & dp[b]} for a in ids}
    reach = {a: set(edges[a]) for a in ids}
    changed = True
    while changed:
        changed = False
        for a in ids:
            new = set()
            for b in reach[a]:
                new |= reach[b]
            if not new <= reach[a]:
                reach[a] |= new
                changed = True
    return sorted(a for a in ids if a in reach[a])


def false_cycle_locs(defs):
    """Signature of the open C01 finding, computed from the HARNESS' descriptors of the current definitions
    (not from the task objects, whose recorded attributes a defect may have left stale): a task defining
    location L targets L and every container enclosing it below the root (owner chain) and depends on every
    location its descriptor reads and on their enclosing containers; A -> B iff targets(A) & deps(B).  The
    data flow of every explored universe is acyclic, so a cycle of >= 2 tasks of this graph exists only
    through the container-level overlap.  Returns the defined locations lying on such a cycle."""
    def owners(L):
        c = container_of(L)
        return {c} if c in ("n", "l") else set()
    tg, dp = {}, {}
    for L, dsc in defs.items():
        tg[L] = {L} | owners(L)
        rd = set(reads(dsc))
        dp[L] = set(rd)
        for p in rd:
            dp[L] |= owners(p)
    ids = list(defs)
    edges = {a: {b for b in ids if b != a and tg[a] & dp[b]} for a in ids}
    reach = {a: set(edges[a]) for a in ids}
    changed = True
    while changed:
        changed = False
        for a in ids:
            new = set()
            for b in reach[a]:
                new |= reach[b]
            if not new <= reach[a]:
                reach[a] |= new
                changed = True
    return sorted(a for a in ids if a in reach[a])

"""C11 - printed expressions rebuild themselves; dump/load/copy_expr_from are faithful.

(a) Expression level.  Printed text must be real text, so expression shapes, keys
    and constants are concrete: every node class x operand slot x filler (ref,
    numeric literal from an adversarial pool, nested node), keys from an
    adversarial pool (quotes, brackets, the container label, text that looks like
    another path, negative ints, unicode).  Container contents are symbolic (z3 Int
    and Real).  For e2 = eval(str(e), {labels: refs}): e2 == e, equal hashes, equal
    dependencies, and z3 proves e2._get_value() == e._get_value() for all contents.
(b) Manager level.  Histories over the shared universe, then
    dump() -> load() into a fresh manager over a copy of the containers (overwrite
    on/off, definitions in dump order), and copy_expr_from with and without a
    rebinding map and with overwrite=False on a target that already holds
    definitions; same definitions / index supports / query answers, and after a
    follow-up assignment of a fresh symbolic value to every location z3 proves all
    cells equal.
"""
import itertools
import math
import operator

import z3

from symx.driver import get_xdeps
from symx.values import eq, tobool, SymInt, SymReal
from symx.core import Abort, Inconclusive
from . import universe as U
from . import c01, c03

ID = "C11"
LEVEL = "model_checking"
FUNCTIONS = [
    "refs.py:ItemRef.__repr__", "refs.py:AttrRef.__repr__", "refs.py:Ref.__repr__", "refs.py:BinOpExpr.__repr__",
    "refs.py:UnaryOpExpr.__repr__", "refs.py:BuiltinRef.__repr__", "refs.py:CallRef.__repr__", "refs.py:LiteralExpr.__repr__",
    "tasks.py:Manager.dump", "tasks.py:Manager.load", "tasks.py:Manager.copy_expr_from", "tasks.py:Manager.iter_expr_tasks_owner",
]
ASSUMPTIONS = [
    "expression shapes, keys and numeric constants are concrete per path (they pass through repr/eval); container contents are symbolic (z3 Int, second pass z3 Real)",
    "non-finite constants (inf, nan) are outside (their repr is not a Python literal)",
    "copy_expr_from / load: universes without false ordering cycles for the follow-up comparison (open finding C01-false-cycle)",
]
BOUNDS = {
    "quick": "(a) all binary/unary/builtin/call node classes x slots x fillers {ref, 7 literals, nested node} over 5 key pairs from the adversarial pool, plus every node wrapped once (depth 2), int and real contents; "
             "(b) histories <=2 over {a,b,n.x,l0}, dump/load (overwrite on/off, fresh and pre-populated target), copy_expr_from (no binding / label rebinding to a nested ref / overwrite=False), adversarial-key container for rebinding",
    "thorough": "(a) depth 3 spine, all key pairs; (b) histories <=3, both builds",
}
OUTSIDE = "LiteralExpr nodes (never created by the operator API; they print like the literal they hold, so the rebuilt node is the plain literal); non-finite constants; string-valued keyword arguments of calls (the property quantifies numeric arguments); keys that are not str/int"
REQUIRED_CLASSES = ["expr_roundtrip", "load_checked", "load_no_overwrite", "copy_checked", "copy_rebound", "followup", "source_observed_before_history"]
PROFILE_CASES = 4
TASKS_PER_CHILD = 50

KEYS = ["a", "it's", "d", "ref_a", "x][", 'q"uo', "d['a']", "é", 0, -1, 12, "a b"]
KEYPAIRS = [("a", "it's"), ("d", "ref_a"), ("x][", 'q"uo'), ("d['a']", "é"), (0, -1), (12, "a b")]
LITS = [0, 1, -3, 2.5, 1e-3, -0.5, 1e22]
BIN = [operator.add, operator.sub, operator.mul, operator.truediv, operator.floordiv, operator.mod, operator.pow,
       operator.and_, operator.or_, operator.xor, operator.lt, operator.le, operator.gt, operator.ge,
       operator.rshift, operator.lshift, operator.matmul]
UN = [operator.neg, operator.pos, operator.invert, abs, round, math.floor, math.ceil, math.trunc]


def note(ex, k, n=1):
    ex.notes[k] = ex.notes.get(k, 0) + n


class Obj:
    pass


def exprs(R, P, Q, fr, obj_attr):
    """(description, expression) for every node class x slot x filler."""
    out = []
    for f in BIN:
        nm = f.__name__
        out.append((f"{nm}(P,Q)", lambda f=f: f(P, Q)))
        for L in LITS:
            out.append((f"{nm}(P,{L})", lambda f=f, L=L: f(P, L)))
            out.append((f"{nm}({L},P)", lambda f=f, L=L: f(L, P)))
        out.append((f"{nm}(-P,Q*2)", lambda f=f: f(-P, Q * 2)))
    for f in UN:
        out.append((f"{f.__name__}(P)", lambda f=f: f(P)))
        out.append((f"{f.__name__}(P+Q)", lambda f=f: f(P + Q)))
    for un in (operator.neg, operator.pos, operator.invert):
        u = un.__name__
        for f in UN:
            out.append((f"{f.__name__}({u}(P))", lambda f=f, un=un: f(un(P))))
        for f in BIN:
            out.append((f"{f.__name__}({u}(P),Q)", lambda f=f, un=un: f(un(P), Q)))
            out.append((f"{f.__name__}(Q,{u}(P))", lambda f=f, un=un: f(Q, un(P))))
        out.append((f"round({u}(P),2)", lambda un=un: round(un(P), 2)))
        out.append((f"divmod({u}(P),3)", lambda un=un: divmod(un(P), 3)))
        out.append((f"call({u}(P))", lambda un=un: fr.g(un(P), k=un(Q))))
        out.append((f"item[{u}(P)]", lambda un=un: P + Q._manager.containers["d"]["lst"][un(Q) * 0]))
    out += [
        ("round(P,2)", lambda: round(P, 2)), ("round(P,Q)", lambda: round(P, Q)), ("round(P,-1)", lambda: round(P, -1)),
        ("divmod(P,3)", lambda: divmod(P, 3)), ("divmod(P,Q)", lambda: divmod(P, Q)),
        ("eq", lambda: P._eq(Q)), ("ne", lambda: P._neq(3)),
        ("call2", lambda: fr.g(P, Q)), ("call_lit", lambda: fr.g(P, 2.5)), ("call_kw", lambda: fr.g(P, k=Q)),
        ("call_kw_lit", lambda: fr.g(1, k=-0.5)), ("call_nested", lambda: fr.g(P * 2, k=abs(Q))),
        ("attr", lambda: obj_attr + P), ("computed_key", lambda: P + Q._manager.containers["d"]["lst"][Q * 0]),
        ("neg_literal_pow", lambda: (-3) ** P), ("neg_float_pow", lambda: (-0.5) ** P), ("pow_neg", lambda: P ** -3),
        ("sub_neg", lambda: P - (-3)), ("neg_neg", lambda: -(-P)), ("mul_sum", lambda: (P + Q) * (P - Q)),
    ]
    return out


def same_value(a, b):
    if isinstance(a, tuple) and isinstance(b, tuple) and len(a) == len(b):
        rs = [same_value(x, y) for x, y in zip(a, b)]
        if all(isinstance(r, bool) for r in rs):
            return all(rs)
        return z3.And(*[tobool(r) for r in rs])
    if isinstance(a, float) and a != a and isinstance(b, float) and b != b:
        return True
    return eq(a, b)


def run_expr(ex, case):
    xd = get_xdeps(case["build"])
    R = xd.refs
    k1, k2 = case["keys"]
    dom = case["dom"]
    mk = ex.int if dom == "int" else ex.real
    o = Obj()
    o.x = mk("ox")
    d = {k1: mk("p"), k2: mk("q"), "obj": o, "lst": [mk("l0"), mk("l1")]}
    m = xd.Manager()
    r = m.ref(d, "d")
    gf = ex.func("g", 2, "int" if dom == "int" else "real")
    gk = ex.func("gk", 2, "int" if dom == "int" else "real")
    fo = Obj()
    fo.g = lambda a, b=None, k=None: gf(a, b) if k is None else gk(a, k)
    fr = m.ref(fo, "f")
    P, Q = r[k1], r[k2]
    ns = {"d": r, "f": fr}
    wraps = [("", lambda e: e)]
    if case["depth"] >= 2:
        wraps += [("neg", lambda e: -e), ("add_lit", lambda e: e + 1), ("radd", lambda e: 2.5 - e), ("pow", lambda e: e ** 2),
                  ("rpow", lambda e: (-3) ** e), ("abs", lambda e: abs(e)), ("call", lambda e: fr.g(e, k=P))]
    for desc, mkx in exprs(R, P, Q, fr, r["obj"].x):
        for wname, wrap in wraps:
            try:
                e = wrap(mkx())
            except (Abort, Inconclusive):
                raise
            except TypeError:
                continue
            if not isinstance(e, R.BaseRef):
                continue
            note(ex, "expr_roundtrip")
            text = str(e)
            det = {"expr": f"{wname}({desc})" if wname else desc, "text": text, "keys": [repr(k1), repr(k2)]}
            try:
                e2 = eval(text, {}, ns)
            except (Abort, Inconclusive):
                raise
            except Exception as x:
                ex.fail(f"printed text {text!r} does not evaluate: {type(x).__name__}: {x}", det)
                return
            if not isinstance(e2, R.BaseRef):
                ex.fail(f"printed text {text!r} evaluates to a {type(e2).__name__}, not an expression", det)
                return
            if not (e2 == e) or str(e2) != text:
                ex.fail(f"eval(str(e)) != e for {text!r}: rebuilt {str(e2)!r}", det)
                return
            if hash(e2) != hash(e):
                ex.fail(f"eval(str(e)) has a different hash for {text!r}", det)
                return
            d1 = {str(x) for x in e._get_dependencies()}
            d2 = {str(x) for x in e2._get_dependencies()}
            if d1 != d2:
                ex.fail(f"eval(str(e)) has different dependencies for {text!r}: {sorted(d1)} vs {sorted(d2)}", det)
                return
            v1 = _outcome(e._get_value)
            v2 = _outcome(e2._get_value)
            if v1[0] != v2[0] or (v1[0] == "raise" and v1[1] != v2[1]):
                ex.fail(f"value of the rebuilt expression differs for {text!r}: {v1} vs {v2}", det)
                return
            if v1[0] == "val":
                if not ex.prove(same_value(v1[1], v2[1]), f"value of eval({text!r}) differs from the value of the expression it was printed from", det):
                    return
    if len(ex.samples) < 1:
        ex.samples.append({"keys": [repr(k1), repr(k2)], "dom": dom})


def _outcome(f):
    try:
        return ("val", f())
    except (Abort, Inconclusive):
        raise
    except Exception as e:
        return ("raise", type(e).__name__)


# ------------------------------------------------------------------ manager level
def full_state(m, r, xd):
    return {"snap": c03.snapshot(m, xd), "queries": c03.queries(m, r, None), "dump": sorted(map(tuple, m.dump()))}


def followup_equal(ex, a, b, what, det, locs=U.ALL_LOCS):
    """same fresh assignment to every location on both worlds (forked per location)"""
    for L in locs:
        wa, wb = a.fork_world(), b.fork_world()
        v = ex.int(f"fu_{L}")
        outs = []
        for w in (wa, wb):
            try:
                U.assign(w.r, L, v)
                outs.append(None)
            except (Abort, Inconclusive):
                raise
            except Exception as e:
                outs.append(type(e).__name__)
        note(ex, "followup")
        if outs[0] != outs[1]:
            ex.fail(f"{what}: follow-up assignment to {L} gives {outs[0]} on the original and {outs[1]} on the loaded manager", det)
            return False
        for M in U.ALL_LOCS:
            if not ex.prove(eq(U.getval(wa.d, M), U.getval(wb.d, M)),
                            f"{what}: after a follow-up assignment to {L}, location {M} differs from the original manager", det):
                return False
    return True


class World:
    """A manager over its own copy of the contents, rebuilt on demand from a recipe."""

    def __init__(self, xd, contents, g, recipe):
        self.xd, self.contents, self.g, self.recipe = xd, contents, g, recipe
        self.m = xd.Manager()
        d = contents
        self.d = U.copy_contents(d)
        self.r = self.m.ref(self.d, "d")
        self.fr = self.m.ref(U.FContainer(g), "f")
        recipe(self)

    def fork_world(self):
        return World(self.xd, self.d, self.g, self.recipe)


def run_manager(ex, case):
    xd = get_xdeps(case["build"])
    st = c03.HState(ex, case["build"])
    locs = case["locs"]
    for (t, dsc) in case["defs"]:
        st.apply(("expr", t, c01._tup(dsc)))
    for k in range(case["K"]):
        # in-place operations with a *symbolic* constant are left out: the constant would be
        # printed as a placeholder that only the harness can evaluate
        ops = [o for o in c03.list_ops(st.defs, locs)
               if o[0] in ("val", "expr", "unreg") or (o[0] == "isubref" and o[1] in st.defs)]
        op = ops[ex.choose(len(ops))]
        # the source manager is dumped and copied from BEFORE the history goes on as well (an earlier dump /
        # copy must not influence a later one)
        try:
            st.m.dump()
            scratch = xd.Manager()
            scratch.ref(U.copy_contents(st.d), "d")
            scratch.ref(U.FContainer(st.g), "f")
            scratch.copy_expr_from(st.m, "d")
            note(ex, "source_observed_before_history")
        except (Abort, Inconclusive):
            raise
        except Exception as e:
            ex.fail(f"dump()/copy_expr_from of the source in the middle of its history raised {type(e).__name__}: {e}", {"history": list(st.hist)})
            return
        st.apply(op)
    dump = st.m.dump()
    det = {"history": list(st.hist), "dump": [list(x) for x in dump]}
    ExprTask = xd.tasks.ExprTask
    defs, order = dict(st.defs), list(st.order)
    contents, g = st.d, st.g

    def orig_recipe(w):
        for t in order:
            w.m.register(ExprTask(U.getref(w.r, t), U.build(defs[t], w.r, w.fr)))
    orig = World(xd, contents, g, orig_recipe)
    mode = case["mode"]
    if mode.startswith("load"):
        overwrite = mode != "load_no_overwrite"
        pre = case.get("pre")

        def recipe(w):
            if pre:
                t, dsc = pre
                w.m.register(ExprTask(U.getref(w.r, t), U.build(c01._tup(dsc), w.r, w.fr)))
            w.m.load(dump, overwrite=overwrite)
        note(ex, "load_checked")
        if not overwrite:
            note(ex, "load_no_overwrite")
        try:
            new = World(xd, contents, g, recipe)
        except (Abort, Inconclusive):
            raise
        except Exception as e:
            ex.fail(f"load(dump, overwrite={overwrite}) raised {type(e).__name__}: {e}", det)
            return
        exp_defs = dict(defs)
        exp_order = list(order)
        if pre:
            t, dsc = pre
            if not overwrite or t not in exp_defs:
                if t in exp_defs:
                    exp_order.remove(t)
                exp_defs[t] = c01._tup(dsc)
                exp_order.insert(0, t)
            if U.is_cyclic(exp_defs):
                return

        def exp_recipe(w):
            for t in exp_order:
                w.m.register(ExprTask(U.getref(w.r, t), U.build(exp_defs[t], w.r, w.fr)))
        want = World(xd, contents, g, exp_recipe)
        what = f"load(dump, overwrite={overwrite})" + (f" into a manager already defining {pre[0]}" if pre else " into a fresh manager")
    else:
        # copy_expr_from: source = the history manager (label 'd'); target manager label 'd' too
        binding = mode == "copy_rebind"
        overwrite = mode != "copy_no_overwrite"
        pre = case.get("pre")
        src_m = st.m

        def recipe(w):
            if pre:
                t, dsc = pre
                w.m.register(ExprTask(U.getref(w.r, t), U.build(c01._tup(dsc), w.r, w.fr)))
            w.m.copy_expr_from(src_m, "d", overwrite=overwrite)
        note(ex, "copy_checked")
        try:
            new = World(xd, contents, g, recipe)
        except (Abort, Inconclusive):
            raise
        except Exception as e:
            ex.fail(f"copy_expr_from(overwrite={overwrite}) raised {type(e).__name__}: {e}", det)
            return
        exp_defs = dict(defs)
        exp_order = list(order)
        if pre:
            t, dsc = pre
            if not overwrite or t not in exp_defs:
                if t in exp_defs:
                    exp_order.remove(t)
                exp_defs[t] = c01._tup(dsc)
                exp_order.insert(0, t)
            if U.is_cyclic(exp_defs):
                return

        def exp_recipe(w):
            for t in exp_order:
                w.m.register(ExprTask(U.getref(w.r, t), U.build(exp_defs[t], w.r, w.fr)))
        want = World(xd, contents, g, exp_recipe)
        what = f"copy_expr_from(overwrite={overwrite})" + (f" into a manager already defining {pre[0]}" if pre else "")
    a, b = full_state(want.m, want.r, xd), full_state(new.m, new.r, xd)
    if a != b:
        bad = [k for k in a if a[k] != b[k]]
        ex.fail(f"{what}: {bad} differ from a manager holding the expected definitions: "
                f"{str([(sorted(a[k].items()) if isinstance(a[k], dict) else a[k], sorted(b[k].items()) if isinstance(b[k], dict) else b[k]) for k in bad[:1]])[:400]}", det)
        return
    if not followup_equal(ex, want, new, what, det, locs=locs):
        return
    if len(ex.samples) < 1:
        ex.samples.append({"history": list(st.hist), "mode": mode})


def run_rebind(ex, case):
    """copy_expr_from with a rebinding map label -> nested ref, adversarial keys."""
    xd = get_xdeps(case["build"])
    keys = case["keys"]
    label = case["label"]
    vals = {k: ex.int(f"v{i}") for i, k in enumerate(keys)}
    src = xd.Manager()
    sd = dict(vals)
    sr = src.ref(sd, label)
    k0, k1, k2, k3 = keys[:4]
    shapes = [(k2, lambda r: r[k0] + r[k1] * 2), (k3, lambda r: r[k2] - r[k0])]
    if not case.get("two_defs", True):
        shapes = shapes[:1]
    for t, mk in shapes:
        sr[t] = mk(sr)
    tgt = xd.Manager()
    inner = dict(vals)
    td = {"sub": inner, "other": 0}
    tr = tgt.ref(td, case["target_label"])
    bind = {label: tr["sub"]} if case["bind_by"] == "str" else {sr: tr["sub"]}
    note(ex, "copy_rebound")
    det = {"label": label, "keys": [repr(k) for k in keys], "target_label": case["target_label"]}
    before_containers = dict(tgt.containers)
    own = None
    if case.get("no_overwrite"):
        # the destination holds its own definition on a key that also occurs in the source; with
        # overwrite=False it is kept when it is the *same location* - under a rebinding the source's
        # entry denotes another location (inside 'sub') and must be copied
        note(ex, "rebound_no_overwrite")
        if label == case["target_label"]:
            td[k2] = 0
            tr[k2] = tr["other"] + 7
            own = (k2, tr["other"] + 7)
        else:
            tr["sub"][k2] = tr["other"] + 7          # same location as the rebound target: must be kept
    try:
        if case.get("no_overwrite"):
            tgt.copy_expr_from(src, label, bindings=bind, overwrite=False)
        else:
            tgt.copy_expr_from(src, label, bindings=bind)
    except (Abort, Inconclusive):
        raise
    except Exception as e:
        ex.fail(f"copy_expr_from with rebinding raised {type(e).__name__}: {e}", det)
        return
    if set(tgt.containers) != set(before_containers) or any(tgt.containers[k2] is not before_containers[k2] for k2 in before_containers):
        ex.fail(f"copy_expr_from with a rebinding map changed the target manager's own containers: "
                f"{ {k2: str(v) for k2, v in tgt.containers.items()} }", det)
        return
    if case.get("no_overwrite"):
        sub = tr["sub"]
        if own is not None:
            got = tr[own[0]]._expr
            if got is None or not (got == own[1]):
                ex.fail(f"copy with overwrite=False: the destination's own definition of {label}[{own[0]!r}] became {got}", det)
                return
            todo = shapes
        else:
            got = sub[k2]._expr
            if got is None or not (got == tr["other"] + 7):
                ex.fail(f"copy with overwrite=False replaced the existing definition of the rebound location {k2!r}: {got}", det)
                return
            todo = shapes[1:]
        for t, mk in todo:
            got = sub[t]._expr
            if got is None or not (got == mk(sub)):
                ex.fail(f"copy with overwrite=False under a rebinding: definition of {t!r} in the rebound container is {got}, expected {mk(sub)}", det)
                return
        return
    if label == case["target_label"]:
        # a second, plain copy on the same target manager must land on the target's own container
        inner_top = dict(vals)
        td.update({k2: v for k2, v in inner_top.items() if k2 not in td})
        try:
            tgt.copy_expr_from(src, label)
        except (Abort, Inconclusive):
            raise
        except Exception as e:
            ex.fail(f"second (plain) copy_expr_from on the same manager raised {type(e).__name__}: {e}", det)
            return
        for t, mk in shapes:
            got = tr[t]._expr
            if got is None or not (got == mk(tr)):
                ex.fail(f"plain copy after a rebinding copy: definition of {label}[{t!r}] is {got}, expected {mk(tr)}", det)
                return
        for t, _ in shapes:
            tgt.unregister(tr[t])
    sub = tr["sub"]
    for t, mk in shapes:
        got = sub[t]._expr
        want = mk(sub)
        if got is None or not (got == want):
            ex.fail(f"rebound definition of {t!r} is {got}, expected {want}", det)
            return
    if case.get("two_defs", True):
        # two sibling tasks below one nested container form a false ordering cycle
        # (open finding C01-false-cycle): definitions are compared, values are not
        return
    for kk in (k0, k1):
        v = ex.int(f"new_{keys.index(kk)}")
        sr[kk] = v
        sub[kk] = v
        for t in keys:
            if not ex.prove(eq(sd[t], inner[t]), f"after assigning {kk!r} on both, rebound copy differs at key {t!r}", det):
                return
    if not ex.prove(eq(td["other"], 0), "rebinding touched an unrelated key", det):
        return


def run_case(ex, case):
    if case["kind"] == "expr":
        return run_expr(ex, case)
    if case["kind"] == "rebind":
        return run_rebind(ex, case)
    return run_manager(ex, case)


def cases(tier):
    out = []
    builds = ["pure"] if tier == "quick" else ["pure", "compiled"]
    for b in builds:
        for kp in KEYPAIRS:
            for dom in ("int", "real"):
                out.append({"kind": "expr", "build": b, "keys": list(kp), "dom": dom, "depth": 2 if (dom == "int" or tier != "quick") else 1})
        locs = ["a", "b", "n.x", "l0"]
        cand = [(t, dsc) for t in locs for dsc in U.candidates(t, locs, False)]
        mans = [[]]
        n = 0
        for k in (1, 2):
            for combo in itertools.permutations(cand, k):
                if len({t for t, _ in combo}) < k or U.is_cyclic(dict(combo)):
                    continue
                n += 1
                if k == 2 and tier == "quick" and n % 5:
                    continue
                mans.append([list(c) for c in combo])
        pres = [None, ["a", ["neg", ["loc", "b"]]], ["l0", ["mul", ["loc", "a"], ["const", 2]]]]
        for defs in mans:
            for mode in ("load", "load_no_overwrite", "copy", "copy_no_overwrite"):
                for pre in pres:
                    if pre is None and mode == "copy_no_overwrite":
                        continue
                    out.append({"kind": "manager", "build": b, "locs": locs, "defs": defs, "K": 1 if tier == "quick" else 2,
                                "mode": mode, "pre": pre})
        for label, tl in (("ref", "ref"), ("d", "new"), ("ab", "ab")):
            for keys in (["ref_a", "b", "c_ref", "ref"], ["d", "it's", "d['x']", "x]["], ["ab", "abab", "a", "b_ab"], [0, -1, 12, "0"]):
                for by in ("str", "ref"):
                    for two in (True, False):
                        out.append({"kind": "rebind", "build": b, "label": label, "target_label": tl, "keys": keys, "bind_by": by, "two_defs": two})
                    out.append({"kind": "rebind", "build": b, "label": label, "target_label": tl, "keys": keys, "bind_by": by, "two_defs": True, "no_overwrite": True})
    return out

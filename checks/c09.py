"""C09 - solve() returns only on a matched point and otherwise restores the knobs.

The real Optimize.solve/step/reload/add_point_to_log, MeritFunctionForMatch and
JacobianSolver code is executed on symbolic reals (see optcommon): one explored
path covers every start point, limit pair, tolerance, merit function and Newton
step that drive the real code down that path.  Assertions (z3, for all values):
  normal return  => for every active target |f_i(knobs left in the container) -
                    value_i| < tol_i, f_i re-applied by the harness;
  exception + restore_if_fail => knobs == row 0 of the log (exact), active flags
                    == those recorded in row 0.
"""
import z3

from symx.values import eq, tobool
from symx.core import Abort, Inconclusive
from . import optcommon as OC

ID = "C09"
LEVEL = "model_checking"
FUNCTIONS = [
    "optimize/optimize.py:Optimize.__init__", "optimize/optimize.py:Optimize.solve", "optimize/optimize.py:Optimize.step",
    "optimize/optimize.py:Optimize.reload", "optimize/optimize.py:Optimize.add_point_to_log",
    "optimize/optimize.py:Optimize.set_knobs_from_x", "optimize/optimize.py:MeritFunctionForMatch.__call__",
    "optimize/optimize.py:MeritFunctionForMatch.get_jacobian", "optimize/optimize.py:MeritFunctionForMatch._clip_to_max_steps",
    "optimize/optimize.py:MeritFunctionForMatch._knobs_to_x", "optimize/optimize.py:MeritFunctionForMatch._x_to_knobs",
    "optimize/optimize.py:MeritFunctionForMatch._get_x_limits", "optimize/jacobian.py:JacobianSolver.step",
    "optimize/jacobian.py:JacobianSolver.eval",
]
ASSUMPTIONS = OC.STUBS + [
    "start point inside the limits, tolerances > 0 (assumed before the code runs)",
    "restore is asserted exactly (reload writes the logged knob values, no weight scaling involved)",
]
BOUNDS = {
    "quick": "knobs x targets in {1x1, 2x1, 1x2}, n_steps_max=1, n_bisections=0, Broyden off/on (1x1), one disabled knob (2x1) or target (1x2), "
             "optionally the k-th Action.run call raising (1x1, every k), symbolic target values (1x1); 2x1 with a knob that is inactive in row 0 of the log (constructed with active=False, or disabled followed by clear_log(), or disabled after construction) and moved by hand before solve()",
    "thorough": "adds 2x2, n_steps_max=2 (1x1, 2x1), n_bisections=1 and error_on_penalty_increase (1x1), symbolic knob weights (1x1)",
}
OUTSIDE = "more steps/knobs/targets; float rounding in the tolerance comparison; quality of real LAPACK steps (irrelevant: the claim holds for any step)"
REQUIRED_CLASSES = ["return", "runtime_error", "user_exception", "restore_checked", "within_tol_checked", "request_edited",
                    "prelude_inactive_hand", "prelude_disable_clear_hand"]
REPLAY_REALS = ["fraction"]
PROFILE_CASES = 2
TASKS_PER_CHILD = 10
SPLIT = {"2x1": 10, "1x2": 8, "2x2": 12, "1x1s2": 8, "2x1s2": 12}


def run_case(ex, case):
    P = OC.Problem(ex, case)
    try:
        opt = P.make_opt()
    except (Abort, Inconclusive):
        raise
    except Exception as e:
        # constructor failure (e.g. the very first evaluation): not the subject
        raise Abort()
    if case.get("raise"):
        calls = list(range(2, 7 + P.NK))
        k = ex.choose(len(calls) + 1)
        P.raise_at = None if k == 0 else calls[k - 1]
    ed = case.get("edit")
    if ed:
        # the request is edited on the existing object after construction (which has already evaluated
        # the merit function once): solve() must honour the current tolerance / requested value
        OC.note(ex, "request_edited")
        if ed == "tol":
            nt = ex.real("tol_edit")
            ex.assume(OC.tobool(nt > 0))
            opt.targets[0].tol = nt
            P.tols[0] = nt
        else:
            nv = ex.real("tval_edit")
            opt.targets[0].value = nv
            P.tvals[0] = nv
    dis = case.get("disable")
    if dis:
        if dis[0] == "vary":
            opt.disable(vary=dis[1])
        else:
            opt.disable(target=dis[1])
    pre = case.get("prelude")
    if pre:
        # state changes between construction and solve(): a knob that is inactive in row 0 of the log
        # (constructed inactive, or disabled and the log cleared) is moved by hand afterwards
        OC.note(ex, "prelude_" + pre)
        if pre == "disable_clear_hand":
            opt.disable(vary=1)
            opt.clear_log()
        elif pre == "tag_disable_hand":
            opt.disable(vary=1)
            opt.tag("mark")
        nv = ex.real("hand_value")
        ex.assume(tobool(P.lims[1][0] <= nv))
        ex.assume(tobool(nv <= P.lims[1][1]))
        P.d["k1"] = nv
    row0_knobs = list(opt._log["knobs"][0])
    row0_vact = opt._log["vary_active"][0]
    row0_tact = opt._log["target_active"][0]
    try:
        opt.solve(broyden=case.get("broyden", False))
        outcome = "return"
    except (Abort, Inconclusive):
        raise
    except Exception as e:
        outcome = OC.classify(e)
        err = e
    det = {"case": {k: v for k, v in case.items() if not k.startswith("_")}, "outcome": outcome}
    if outcome == "return":
        OC.note(ex, "return")
        knobs = P.knobs_now()
        for i, t in enumerate(opt._err.targets):
            if not t.active:
                continue
            OC.note(ex, "within_tol_checked")
            if not ex.prove(P.within_tol(i, knobs),
                            f"solve() returned normally but active target {i} is not within its tolerance at the knobs left in the container", det):
                return
    else:
        if outcome in ("runtime_error", "user_exception"):
            OC.note(ex, outcome)
        else:
            OC.note(ex, "limit_or_other_error")
            if outcome not in ("limit_value_error", "value_error", "ZeroDivisionError", "AssertionError"):
                ex.fail(f"solve() raised an unexpected {outcome}: {err}", det)
                return
        OC.note(ex, "restore_checked")
        knobs = P.knobs_now()
        for i in range(P.NK):
            if not ex.prove(eq(knobs[i], row0_knobs[i]),
                            f"solve() raised {outcome} with restore_if_fail but knob {i} is not the value logged as iteration 0", det):
                return
        vact = "".join("y" if v.active else "n" for v in opt._err.vary)
        tact = "".join("y" if t.active else "n" for t in opt._err.targets)
        if vact != row0_vact or tact != row0_tact:
            ex.fail(f"solve() raised {outcome}: active flags {vact}/{tact} differ from iteration 0 ({row0_vact}/{row0_tact})", det)
            return
    if len(ex.samples) < 2:
        ex.samples.append({"case": det["case"], "outcome": outcome, "steps_taken": len(P.rec.steps)})


def _base():
    return [
        {"tag": "1x1", "nk": 1, "nt": 1},
        {"tag": "1x1", "nk": 1, "nt": 1, "broyden": True},
        {"tag": "1x1", "nk": 1, "nt": 1, "raise": True},
        {"tag": "1x1", "nk": 1, "nt": 1, "sym_target_values": True, "max_step": True},
        {"tag": "1x1", "nk": 1, "nt": 1, "edit": "tol"},
        {"tag": "1x1", "nk": 1, "nt": 1, "edit": "value"},
        {"tag": "1x1", "nk": 1, "nt": 1, "edit": "tol", "broyden": True},
        {"tag": "2x1", "nk": 2, "nt": 1},
        {"tag": "2x1", "nk": 2, "nt": 1, "disable": ["vary", 1]},
        {"tag": "2x1", "nk": 2, "nt": 1, "init_inactive_vary": [1], "prelude": "inactive_hand"},
        {"tag": "2x1", "nk": 2, "nt": 1, "prelude": "disable_clear_hand"},
        {"tag": "2x1", "nk": 2, "nt": 1, "prelude": "tag_disable_hand"},
        {"tag": "1x2", "nk": 1, "nt": 2},
        {"tag": "1x2", "nk": 1, "nt": 2, "disable": ["target", 0]},
    ]


def cases(tier):
    import sys
    from symx import driver
    mod = sys.modules[__name__]
    cs = _base()
    if tier != "quick":
        cs += [
            {"tag": "2x2", "nk": 2, "nt": 2},
            {"tag": "1x1s2", "nk": 1, "nt": 1, "n_steps": 2},
            {"tag": "2x1s2", "nk": 2, "nt": 1, "n_steps": 2},
            {"tag": "1x1", "nk": 1, "nt": 1, "n_bisections": 1, "error_on_penalty_increase": 100, "max_rel_penalty_increase": 10.0},
            {"tag": "1x1", "nk": 1, "nt": 1, "weights": True},
            {"tag": "2x1", "nk": 2, "nt": 1, "broyden": True},
        ]
    out = []
    for c in cs:
        d = SPLIT.get(c["tag"])
        if d:
            out += driver.split_case(mod, c, d)
        else:
            out.append(c)
    return out

"""C12 - a pickled manager restores to an independent, behaviourally identical copy.

Real __reduce__ methods of every node class + Manager pickling through __dict__.
Symbolic container contents implement __reduce__ through a process-local table so
that original and copy hold the same z3 symbols.  Shapes: one manager per node
class of refs.py (found by introspection: binary, unary, builtin with and without
parameters, call with kwargs, nested item/attribute refs, computed key) and
managers reached by histories over the shared universe.  Assertions:
  * pickle.loads(pickle.dumps(m)) does not raise; dump(), task ids, supports of
    the four indices and every query answer of the copy equal the original's;
    verify() passes on the copy;
  * up to two further operations (assign value / expression / in-place /
    unregister / load / register), the same on both: same exceptions, same
    definitions and indices, and z3 proves all cells equal for all values;
  * an assignment applied to one of them only leaves every cell of the other
    unchanged (z3), in both directions.
"""
import math
import pickle

import z3

from symx.driver import get_xdeps
from symx.values import eq
from symx.core import Abort, Inconclusive
from . import universe as U
from . import c01, c03

ID = "C12"
LEVEL = "model_checking"
FUNCTIONS = [
    "refs.py:MutableRef.__reduce__", "refs.py:BinOpExpr.__reduce__", "refs.py:UnaryOpExpr.__reduce__",
    "refs.py:BuiltinRef.__reduce__", "refs.py:CallRef.__reduce__", "refs.py:LiteralExpr.__reduce__",
    "tasks.py:Manager.verify", "tasks.py:Manager.set_value", "tasks.py:Manager.register", "tasks.py:Manager.unregister",
]
ASSUMPTIONS = c01.ASSUMPTIONS[:3] + [
    "pickling happens within one process; symbolic values and the uninterpreted user function pickle to handles on the same z3 symbols",
    "containers are picklable plain dict/list/object containers",
]
BOUNDS = {
    "quick": "one manager per node class (all classes found by introspection) and every manager of <=1 definition and one in eight of those with 2 definitions over {a,n.x,n.y,l0}; follow-up sequences of 1 operation (2 for a few managers); one-sided assignment to every location; the managers of <=1 definition (and some of 2) are also pickled while frozen (the copy must refuse exactly what the original refuses)",
    "thorough": "managers of <=3 definitions, follow-up sequences of <=3 operations, both builds",
}
OUTSIDE = "cross-process / cross-version pickles; containers that are not picklable"
REQUIRED_CLASSES = ["roundtrip", "node_class_manager", "followup_both", "independence", "refattr_container", "pickled_frozen"]
PROFILE_CASES = 4
TASKS_PER_CHILD = 30
LOCS = ["a", "n.x", "n.y", "l0"]


def same(a, b):
    """cell equality, NaN-aware (deferred division by zero yields NaN on both sides)"""
    if isinstance(a, float) and a != a and isinstance(b, float) and b != b:
        return True
    return eq(a, b)


def note(ex, k, n=1):
    ex.notes[k] = ex.notes.get(k, 0) + n


def shadow(st, m2):
    """HState view on the unpickled manager (same bookkeeping, other manager/containers)."""
    w = object.__new__(c03.HState)
    w.__dict__.update(st.__dict__)
    w.m = m2
    w.r = m2.containers["d"]
    w.fr = m2.containers["f"]
    w.d = w.r._owner
    w.defs, w.last, w.order = dict(st.defs), dict(st.last), list(st.order)
    w.hist, w.oplog = list(st.hist), list(st.oplog)
    return w


def full_state(w):
    return {"snap": c03.snapshot(w.m, w.xd), "queries": c03.queries(w.m, w.r, None),
            "dump": sorted(map(tuple, w.m.dump())), "tasks": sorted(str(t) for t in w.m.tasks)}


def special_exprs(xd, r, fr):
    """(name, target location, expression) for every node class."""
    R = xd.refs
    out = [
        ("round2", "a", round(r["b"], 2)), ("round1", "a", round(r["b"])), ("abs", "a", abs(r["b"])),
        ("divmod", "a", divmod(r["b"], 3)), ("floor", "a", math.floor(r["b"])), ("ceil", "a", math.ceil(r["b"])),
        ("trunc", "a", math.trunc(r["b"])), ("call_pos", "a", fr.g(r["b"], r["c"])), ("call_kw", "a", fr.g(r["b"], q=r["c"])),
        ("call_kw2", "a", fr.g(q=r["b"], p=2)),
        ("neg", "a", -r["b"]), ("pos", "a", +r["b"]), ("invert", "a", ~r["b"]),
        ("nested", "a", r["n"].x + r["l"][0]), ("computed_key", "a", r["l"][r["c"] * 0]),
        ("literal", "a", R.LiteralExpr(7) + r["b"]), ("eq", "a", r["b"]._eq(r["c"])), ("ne", "a", r["b"]._neq(3)),
        ("round_param_ref", "a", round(r["b"], r["c"])),
    ]
    for name, cls in vars(R).items():
        if isinstance(cls, type) and issubclass(cls, R.BinOpExpr) and cls is not R.BinOpExpr and name not in ("EqExpr", "NeExpr"):
            out.append((name, "a", cls(r["b"], r["c"])))
            out.append((name + "_lit", "a", cls(3, r["b"])))
    return out


def ckey_targets(r):
    """refs with computed keys (each evaluates to index 0 of the list) built from every node class"""
    import math as _m
    c = r["c"]
    return [("abs", lambda r: r["l"][abs(r["c"]) * 0]), ("round1", lambda r: r["l"][round(r["c"]) * 0]),
            ("round2", lambda r: r["l"][round(r["c"], 2) * 0]), ("floor", lambda r: r["l"][_m.floor(r["c"]) * 0]),
            ("neg", lambda r: r["l"][(-r["c"]) * 0]), ("mul", lambda r: r["l"][r["c"] * 0]),
            ("call", lambda r: r["l"][r._manager.containers["f"].g(r["c"], r["b"]) * 0]),
            ("call_kw", lambda r: r["l"][r._manager.containers["f"].g(r["c"], q=r["b"]) * 0]),
            ("call_kw_lit", lambda r: r["l"][r._manager.containers["f"].g(q=1, p=r["c"]) * 0]),
            ("trunc_plain", lambda r: r["l"][_m.trunc(r["c"]) * 0 + 0])]


def run_ckey(ex, case):
    """definitions on a target whose key is computed; the restored manager must treat later
    assignments to that same target like the original does"""
    xd = get_xdeps(case["build"])
    st = c03.HState(ex, case["build"])
    st.fr._owner.g = U.UFunc("g", 2)
    st.g = st.fr._owner.g
    specs = ckey_targets(st.r)
    if case["idx"] >= len(specs):
        return
    name, mk = specs[case["idx"]]
    note(ex, "node_class_manager")
    st.m.set_value(mk(st.r), st.r["a"] * 2)
    det = {"target": str(mk(st.r))}
    try:
        m2 = pickle.loads(pickle.dumps(st.m))
    except (Abort, Inconclusive):
        raise
    except BaseException as e:
        ex.fail(f"pickle round trip raised {type(e).__name__}: {str(e)[:120]}", det)
        return
    note(ex, "roundtrip")
    cp = shadow(st, m2)
    seqs = [("value", "a"), ("iadd", "a"), ("expr", "a"), ("value", "b")]
    seq = seqs[ex.choose(len(seqs))]
    v1, v2 = ex.int("ck_v1"), ex.int("ck_v2")
    outs = []
    for w in (st, cp):
        try:
            tgt = mk(w.r)
            if seq[0] == "value":
                w.m.set_value(tgt, v1)
            elif seq[0] == "iadd":
                w.m.set_value(tgt, tgt.__iadd__(v1))
            else:
                w.m.set_value(tgt, w.r["b"] + 1)
            U.assign(w.r, seq[1], v2)
            outs.append(None)
        except (Abort, Inconclusive):
            raise
        except Exception as e:
            outs.append(f"{type(e).__name__}: {str(e)[:60]}")
    note(ex, "followup_both")
    if outs[0] != outs[1]:
        ex.fail(f"follow-up on the computed-key target behaves differently: original {outs[0]}, copy {outs[1]}", det)
        return
    if sorted(map(tuple, st.m.dump())) != sorted(map(tuple, cp.m.dump())):
        ex.fail(f"after re-assigning the computed-key target ({seq}), definitions differ: {st.m.dump()} vs {cp.m.dump()}", det)
        return
    for M in U.ALL_LOCS:
        if not ex.prove(same(U.getval(st.d, M), U.getval(cp.d, M)),
                        f"after re-assigning the computed-key target ({seq}) on both, {M} differs between original and copy", det):
            return


def run_refattr(ex, case):
    """containers registered with Manager.refattr() (attribute spelling mapped to item access)"""
    xd = get_xdeps(case["build"])
    m = xd.Manager()
    data = {"a": ex.int("ra"), "b": ex.int("rb"), "c": 0, "d": 0}
    g = m.refattr(data, "g")
    plain = m.ref({"x": ex.int("px"), "y": 0}, "p")
    g.c = g.a + g.b
    if case["variant"] >= 1:
        plain["y"] = g.c * 2
    if case["variant"] >= 2:
        g.d = plain["x"] - g.a
    note(ex, "node_class_manager")
    try:
        m2 = pickle.loads(pickle.dumps(m))
    except (Abort, Inconclusive):
        raise
    except BaseException as e:
        ex.fail(f"pickle round trip of a manager with a refattr container raised {type(e).__name__}: {str(e)[:120]}")
        return
    note(ex, "roundtrip")
    note(ex, "refattr_container")
    g2, p2 = m2.containers["g"], m2.containers["p"]
    det = {"definitions": [list(x) for x in m.dump()]}
    if sorted(map(tuple, m.dump())) != sorted(map(tuple, m2.dump())):
        ex.fail(f"definitions differ after the round trip: {m.dump()} vs {m2.dump()}", det)
        return
    try:
        m2.verify()
    except Exception as e:
        ex.fail(f"verify() fails on the restored manager: {e}", det)
        return
    seq = ex.choose(3)
    v1, v2 = ex.int("rf_v1"), ex.int("rf_v2")
    outs = []
    for (gg, pp) in ((g, plain), (g2, p2)):
        try:
            if seq == 0:
                gg.a = v1
                gg.b = v2
            elif seq == 1:
                gg.d = gg.c * 3
                gg.a = v1
            else:
                gg.c = v1                     # the definition is replaced by a value
                gg.a = v2
            outs.append(None)
        except (Abort, Inconclusive):
            raise
        except Exception as e:
            outs.append(f"{type(e).__name__}: {str(e)[:60]}")
    note(ex, "followup_both")
    if outs[0] != outs[1]:
        ex.fail(f"attribute-spelled follow-up assignments behave differently: original {outs[0]}, restored {outs[1]}", det)
        return
    if sorted(map(tuple, m.dump())) != sorted(map(tuple, m2.dump())):
        ex.fail(f"after the follow-up assignments definitions differ: {m.dump()} vs {m2.dump()}", det)
        return
    for cont1, cont2, nm in ((data, g2._owner, "g"), (plain._owner, p2._owner, "p")):
        for k in cont1:
            if not ex.prove(same(cont1[k], cont2[k]), f"after attribute-spelled follow-up assignments on both, {nm}[{k!r}] differs between original and restored manager", det):
                return


def run_case(ex, case):
    if case["mode"] == "refattr":
        return run_refattr(ex, case)
    if case["mode"] == "ckey":
        return run_ckey(ex, case)
    xd = get_xdeps(case["build"])
    st = c03.HState(ex, case["build"])
    st.fr._owner.g = U.UFunc("g", 2)
    st.g = st.fr._owner.g
    if case["mode"] == "class":
        note(ex, "node_class_manager")
        specs = special_exprs(xd, st.r, st.fr)
        if case["idx"] >= len(specs):
            return
        name, t, expr = specs[case["idx"]]
        try:
            st.m.register(xd.tasks.ExprTask(U.getref(st.r, t), expr))
        except Exception as e:
            raise Abort()
        st.hist.append(f"register({t} = {expr})")
        special = True
    else:
        for (t, dsc) in case["defs"]:
            st.apply(("expr", t, c01._tup(dsc)))
        special = False
    if case.get("frozen"):
        # the manager is pickled while its tree is frozen: the copy must refuse what the original refuses
        st.m.freeze_tree()
        st.hist.append("freeze_tree()")
        note(ex, "pickled_frozen")
    det = {"history": list(st.hist)}
    try:
        blob = pickle.dumps(st.m)
        m2 = pickle.loads(blob)
    except (Abort, Inconclusive):
        raise
    except BaseException as e:
        ex.fail(f"pickle round trip raised {type(e).__name__}: {str(e)[:120]}", det)
        return
    note(ex, "roundtrip")
    cp = shadow(st, m2)
    if cp.d is st.d or cp.d["n"] is st.d["n"] or cp.d["l"] is st.d["l"]:
        ex.fail("the restored manager shares its containers with the original", det)
        return
    a, b = full_state(st), full_state(cp)
    if a != b:
        bad = [k for k in a if a[k] != b[k]]
        ex.fail(f"restored manager differs from the original in {bad}: {str([(a[k], b[k]) for k in bad])[:300]}", det)
        return
    try:
        m2.verify()
    except Exception as e:
        ex.fail(f"verify() fails on the restored manager: {str(e)[:100]}", det)
        return
    for L in U.ALL_LOCS:
        if not ex.prove(eq(U.getval(st.d, L), U.getval(cp.d, L)), f"restored contents differ at {L}", det):
            return
    if special:
        # evaluate the special expression on both after a change of its inputs
        for L in ("b", "c"):
            v = ex.int(f"nv_{L}")
            outs = []
            for w in (st, cp):
                try:
                    U.assign(w.r, L, v)
                    w.m.run_tasks()
                    outs.append(None)
                except (Abort, Inconclusive):
                    raise
                except Exception as e:
                    outs.append(type(e).__name__)
            if outs[0] != outs[1]:
                ex.fail(f"after {L} changed: original gives {outs[0]}, copy gives {outs[1]}", det)
                return
            for M in U.ALL_LOCS:
                if not ex.prove(same(U.getval(st.d, M), U.getval(cp.d, M)), f"after {L} changed on both, {M} differs between original and copy", det):
                    return
        return
    # follow-up operations, the same on both
    locs = case["locs"]
    for k in range(case["K"]):
        ops = c03.list_ops(st.defs, locs)
        if k == 0 and case.get("first") is not None:
            if case["first"] >= len(ops):
                return
            op = ops[case["first"]]
        else:
            op = ops[ex.choose(len(ops))]
        outs = []
        n0 = st.nv
        for w in (st, cp):
            w.nv = n0
            try:
                w.apply(op)
                outs.append(None)
            except (Abort, Inconclusive):
                raise
            except Exception as e:
                outs.append(f"{type(e).__name__}: {str(e)[:60]}")
        cp.vals = st.vals
        note(ex, "followup_both")
        det = {"history": list(st.hist)}
        if outs[0] != outs[1]:
            ex.fail(f"`{st.hist[-1]}` behaves differently on the restored manager: original {outs[0]}, copy {outs[1]}", det)
            return
        if outs[0] is not None:
            return
        a, b = full_state(st), full_state(cp)
        if a != b:
            bad = [kk for kk in a if a[kk] != b[kk]]
            ex.fail(f"after `{st.hist[-1]}` on both, {bad} differ between original and restored manager", det)
            return
        for M in U.ALL_LOCS:
            if not ex.prove(eq(U.getval(st.d, M), U.getval(cp.d, M)),
                            f"after `{st.hist[-1]}` on both, location {M} differs between original and restored manager", det):
                return
    if case.get("frozen"):
        st.m.unfreeze_tree()
        cp.m.unfreeze_tree()
    # independence: assign on one only, in both directions
    L = locs[ex.choose(len(locs))]
    for which in (0, 1):
        tgt, other = (st, cp) if which == 0 else (cp, st)
        before = {M: U.getval(other.d, M) for M in U.ALL_LOCS}
        snap = full_state(other)
        v = ex.int(f"one_sided{which}")
        try:
            U.assign(tgt.r, L, v)
        except (Abort, Inconclusive):
            raise
        except Exception as e:
            ex.fail(f"one-sided assignment to {L} raised {type(e).__name__}: {e}", det)
            return
        note(ex, "independence")
        for M in U.ALL_LOCS:
            if not ex.prove(same(U.getval(other.d, M), before[M]),
                            f"assigning {L} on the {'original' if which == 0 else 'copy'} changed {M} of the other manager", det):
                return
        if full_state(other) != snap:
            ex.fail("a one-sided assignment changed the definitions/indices of the other manager", det)
            return
        if not ex.prove(eq(U.getval(tgt.d, L), v), "one-sided assignment did not take effect", det):
            return
    if len(ex.samples) < 2:
        ex.samples.append({"history": list(st.hist)})


def cases(tier):
    import itertools
    out = []
    builds = ["pure"] if tier == "quick" else ["pure", "compiled"]
    for b in builds:
        for i in range(72):
            out.append({"mode": "class", "build": b, "idx": i})
        for i in range(12):
            out.append({"mode": "ckey", "build": b, "idx": i})
        for v in range(3):
            out.append({"mode": "refattr", "build": b, "variant": v})
        cand = [(t, dsc) for t in LOCS for dsc in U.candidates(t, LOCS, False)]
        maxd = 2 if tier == "quick" else 3
        n = 0
        for k in range(0, maxd + 1):
            for combo in itertools.permutations(cand, k):
                if len({t for t, _ in combo}) < k or U.is_cyclic(dict(combo)):
                    continue
                n += 1
                if k == 2 and tier == "quick" and n % 8:
                    continue
                if k == 3 and n % 10:
                    continue
                K = (2 if n % 120 == 0 else 1) if tier == "quick" else (2 if k == 3 else 3)
                if K >= 2:
                    # work splitting: one case per first follow-up operation
                    n_ops = len(c03.list_ops({t: c01._tup(d) for t, d in combo}, LOCS))
                    for f in range(n_ops):
                        out.append({"mode": "hist", "build": b, "locs": LOCS, "defs": [list(c) for c in combo], "K": K, "first": f})
                else:
                    out.append({"mode": "hist", "build": b, "locs": LOCS, "defs": [list(c) for c in combo], "K": K})
                    if k <= 1 or n % 64 == 0:
                        out.append({"mode": "hist", "build": b, "locs": LOCS, "defs": [list(c) for c in combo], "K": K, "frozen": True})
        # chains of three definitions on members of ONE nested container, in every registration order: the order
        # in which such tasks run follows the insertion order of the indices (open finding C01-false-cycle), so
        # a copy whose indices are rebuilt in another order behaves differently although every query agrees
        SIB = ["a", "n.x", "n.y", "n.z"]
        chain = [["n.x", ["mul", ["loc", "a"], ["const", 2]]], ["n.y", ["add", ["loc", "n.x"], ["const", 1]]], ["n.z", ["mul", ["loc", "n.y"], ["const", 3]]]]
        fan = [["n.x", ["mul", ["loc", "a"], ["const", 2]]], ["n.y", ["add", ["loc", "n.x"], ["loc", "a"]]], ["n.z", ["sub", ["loc", "n.y"], ["loc", "n.x"]]]]
        for shape in (chain, fan):
            for perm in itertools.permutations(shape):
                out.append({"mode": "hist", "build": b, "locs": SIB, "defs": [list(x) for x in perm], "K": 1, "siblings": True})
    return out

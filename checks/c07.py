"""C07 - table rows addressed by name resolve against the *current* index column.

Real Table code (table.py from the working tree).  Engine decisions: the
repetition pattern of the index column (every sequence over a 3-name alphabet up
to 4 rows), a history of <= 2 API mutations, interleaved with lookups that build
the lazy cache.  After every step a complete sweep compares every addressing form
(tuple and string forms, every name incl. an absent one, every count in [-5,5],
every offset landing inside the table) through table[col,row] read and write,
rows.get_index and table // row with a linear-scan reference written here; the
data cells are symbolic (z3 Int) so that "returns/writes exactly that cell" is
decided for all cell values.
The parsing of 'name::count<<offset' strings is additionally proved as a lemma
over ALL bounded strings by an SMT string solver on an encoding translated from
the AST of Table._split_name_count_offset on every run (see c07_lemma).
"""
import itertools

import numpy as np
import z3

from symx.driver import get_xdeps
from symx.values import eq, SymInt
from symx.core import Abort, Inconclusive

ID = "C07"
LEVEL = "model_checking"
FUNCTIONS = [
    "table.py:Table._make_cache", "table.py:Table._get_cache", "table.py:Table._get_row_cache",
    "table.py:Table._get_row_cache_raise", "table.py:Table._split_name_count_offset", "table.py:Table._get_row_index",
    "table.py:Table.__getitem__", "table.py:Table.__setitem__", "table.py:Table.__floordiv__",
    "table.py:_RowView.get_index", "table.py:_ColView.get_index_unique", "table.py:Table.pop", "table.py:Table.__delitem__",
]
ASSUMPTIONS = [
    "index-column names come from the alphabet {a,b,c,x} plus the fresh name d; the repetition pattern is an engine decision; names containing a separator ('::', '<<', '>>') are outside (the addressing syntax reserves them)",
    "counts and offsets are enumerated in [-5,5] x [-4,4] (they pass through dict hashing / numpy indexing, so a symbolic value would be concretized by enumeration anyway); data cells are symbolic z3 Ints",
    "offsets landing outside the table are outside the property",
    "string parsing for arbitrary names is covered by the SMT lemma (names without the separator characters, bounded length)",
]
BOUNDS = {
    "quick": "all index columns over {a,b,c} with 0..4 rows (object dtype) and five patterns built with cast_strings=False (fixed-width unicode index, longer names truncated on store); histories of <=2 mutations out of {whole index column, index cell by position / by name / by tuple, attribute style, new column, column deletion (del/pop), data cell write} "
             "with a lookup sweep (which builds the cache) before and after each; parsing lemma: names <= 3 chars, numerals <= 3 chars",
    "thorough": "0..5 rows, histories <=3 (reduced sweep for the third), parsing lemma with names <= 4 chars",
}
OUTSIDE = "tables with more than 5 rows; _append_row/_update (private, not in the property's list); names containing the separators"
REQUIRED_CLASSES = ["sweep", "keyerror_expected", "write_checked", "unique_labels", "index_cell_update", "index_column_readded", "lemma_unsat"]
PROFILE_CASES = 6
TASKS_PER_CHILD = 200
ALPHA = ["a", "b", "c"]
PROBE = ["a", "b", "c", "d", "zz", "ab", "dd"]
COUNTS = list(range(-5, 6))
OFFSETS = list(range(-4, 5))


def note(ex, k, n=1):
    ex.notes[k] = ex.notes.get(k, 0) + n


def oracle(names, name, count, offset):
    """Linear scan reference: position or None (KeyError)."""
    occ = [i for i, x in enumerate(names) if x == name]
    if count is None:
        count = 0
    if count < 0:
        count += len(occ)
    if count < 0 or count >= len(occ):
        return None
    return occ[count] + offset


def forms(name, count, offset):
    """Every way to write (name, count, offset): (description, row argument)."""
    out = [("tuple3", (name, count, offset))]
    if offset == 0:
        out.append(("tuple2", (name, count)))
        out.append(("str::", f"{name}::{count}"))
    if offset < 0:
        out.append(("str::<<", f"{name}::{count}<<{-offset}"))
        out.append(("str::>>-", f"{name}::{count}>>{offset}"))
    elif offset > 0:
        out.append(("str::>>", f"{name}::{count}>>{offset}"))
        out.append(("str::<<-", f"{name}::{count}<<{-offset}"))
    if count == 0:
        if offset == 0:
            out.append(("str", name))
        elif offset < 0:
            out.append(("str<<", f"{name}<<{-offset}"))
        else:
            out.append(("str>>", f"{name}>>{offset}"))
    return out


def sweep(ex, t, hist, writes=True):
    """Compare every addressing form with the reference on the current table."""
    names = list(t._data[t._index])
    n = len(names)
    note(ex, "sweep")
    literal = set(names)
    for name in PROBE:
        for count in COUNTS:
            for offset in OFFSETS:
                exp = oracle(names, name, count, offset)
                if exp is not None and not (0 <= exp < n):
                    continue                       # offset lands outside the table
                for fname, row in forms(name, count, offset):
                    if isinstance(row, str) and row in literal:
                        continue                   # the string is itself a row name (literal match first)
                    det = {"history": list(hist), "index_column": names, "row": repr(row), "form": fname, "expected": exp}
                    for api in ("get_index", "floordiv", "getitem"):
                        try:
                            if api == "get_index":
                                got = t.rows.get_index(row)
                            elif api == "floordiv":
                                got = t // row
                            else:
                                got = t["v", row]
                        except KeyError:
                            got = KeyError
                        except (Abort, Inconclusive):
                            raise
                        except Exception as e:
                            ex.fail(f"{api}({row!r}) raised {type(e).__name__}: {e}", det)
                            return False
                        if exp is None:
                            note(ex, "keyerror_expected")
                            if got is not KeyError:
                                ex.fail(f"{api}({row!r}): no such occurrence in {names}, expected KeyError, got {got!r}", det)
                                return False
                        elif api == "getitem":
                            if got is KeyError or not ex.prove(eq(got, t._data["v"][exp]),
                                                               f"table['v', {row!r}] is not the cell of row {exp} of {names}", det):
                                if got is KeyError:
                                    ex.fail(f"table['v', {row!r}] raised KeyError, a scan of {names} gives row {exp}", det)
                                return False
                        else:
                            if got is KeyError or int(got) != exp:
                                ex.fail(f"{api}({row!r}) gave {got!r}, a scan of {names} gives {exp}", det)
                                return False
    # the unique labels the table reports resolve back to their own row
    note(ex, "unique_labels")
    if n:
        labels = list(t.cols.get_index_unique())
        for i, lab in enumerate(labels):
            try:
                got = t.rows.get_index(lab)
            except Exception as e:
                got = f"{type(e).__name__}"
            # a label equal to another literal name resolves to that name's first occurrence (documented literal-first rule)
            if got != i and not (lab in literal and names.index(lab) == got):
                ex.fail(f"unique label {lab!r} of row {i} resolves to {got!r} (index column {names})", {"history": list(hist)})
                return False
    return True


def write_check(ex, t, hist):
    """A write through each addressing form lands in the reference cell only."""
    names = list(t._data[t._index])
    n = len(names)
    if not n:
        return True
    val = ex.int("written")
    for name in sorted(set(names)):
        nocc = names.count(name)
        for count in range(-nocc, nocc):
            base = oracle(names, name, count, 0)
            for offset in (-1, 0, 1):
                exp = base + offset
                if not (0 <= exp < n):
                    continue
                for fname, row in forms(name, count, offset):
                    if isinstance(row, str) and row in set(names):
                        continue
                    before = list(t._data["v"])
                    note(ex, "write_checked")
                    det = {"history": list(hist), "index_column": names, "row": repr(row), "expected": exp}
                    try:
                        t["v", row] = val
                    except (Abort, Inconclusive):
                        raise
                    except Exception as e:
                        ex.fail(f"table['v', {row!r}] = x raised {type(e).__name__}: {e}", det)
                        return False
                    after = list(t._data["v"])
                    for i in range(n):
                        want = val if i == exp else before[i]
                        if after[i] is not want and not ex.prove(
                                eq(after[i], want), f"table['v', {row!r}] = x: cell {i} " + ("not written" if i == exp else "changed"), det):
                            return False
                    for i in range(n):
                        t._data["v"][i] = before[i]
    return True


def mutations(t):
    names = list(t._data[t._index])
    n = len(names)
    out = []
    for newpat in (["b"] * n, (ALPHA * 2)[:n], list(reversed(names))):
        out.append(("col", newpat))
    out.append(("attr", (["c", "a", "a", "b", "c"])[:n]))
    for i in range(n):
        for nm in ("a", "b", "d", str(names[0]), "dd", "ab"):
            out.append(("cell_pos", i, nm))
    for i in range(-n, 0):
        out.append(("cell_pos", i, "a"))
    for nm in set(names):
        out.append(("cell_name", nm, "a"))
        out.append(("cell_name", nm, "d"))
        out.append(("cell_tuple", (nm, -1), "b"))
        out.append(("cell_name", f"{nm}::0>>0", "c"))
    # the index column is removed and added again (as a new column) with other names
    out.append(("delidx_add", (ALPHA * 2)[1:n + 1]))
    out.append(("popidx_add", list(reversed(names))))
    out.append(("delidx_attr", (["d", "a", "a", "b", "d"])[:n]))
    out.append(("newcol",))
    out.append(("delcol",))
    out.append(("popcol",))
    out.append(("scalar",))
    return out


def apply(ex, t, mu, hist):
    k = mu[0]
    n = len(t)
    if k == "col":
        t["name"] = np.array(mu[1], dtype=object)
        hist.append(f"t['name'] = {mu[1]}")
    elif k == "attr":
        t.name = np.array(mu[1], dtype=object)
        hist.append(f"t.name = {mu[1]}")
    elif k == "cell_pos":
        t["name", mu[1]] = mu[2]
        note(ex, "index_cell_update")
        hist.append(f"t['name', {mu[1]}] = {mu[2]!r}")
    elif k in ("cell_name", "cell_tuple"):
        t["name", mu[1]] = mu[2]
        note(ex, "index_cell_update")
        hist.append(f"t['name', {mu[1]!r}] = {mu[2]!r}")
    elif k == "delidx_add":
        del t["name"]
        t["name"] = np.array(mu[1], dtype=object)
        note(ex, "index_column_readded")
        hist.append(f"del t['name']; t['name'] = {mu[1]}")
    elif k == "popidx_add":
        t.pop("name")
        t["name"] = np.array(mu[1], dtype=object)
        note(ex, "index_column_readded")
        hist.append(f"t.pop('name'); t['name'] = {mu[1]}")
    elif k == "delidx_attr":
        del t["name"]
        t.name = np.array(mu[1], dtype=object)
        note(ex, "index_column_readded")
        hist.append(f"del t['name']; t.name = {mu[1]}")
    elif k == "newcol":
        t["z"] = np.arange(n)
        hist.append("t['z'] = arange(n)")
    elif k == "delcol":
        if "w" in t._col_names:
            del t["w"]
        hist.append("del t['w']")
    elif k == "popcol":
        if "w" in t._col_names:
            t.pop("w")
        hist.append("t.pop('w')")
    elif k == "scalar":
        t["note"] = "hello"
        hist.append("t['note'] = 'hello'")


def run_case(ex, case):
    if case.get("mode") == "lemma":
        from . import c07_lemma
        return c07_lemma.run(ex, case)
    xd = get_xdeps(case["build"])
    Table = xd.Table
    names = case["pattern"]
    n = len(names)
    idx_col = np.array(names, dtype=object) if n else np.array([], dtype=object)
    if case.get("fixed_width") and n:
        idx_col = np.array(names)               # dtype <U1: longer names are truncated by numpy on store
    data = {"name": idx_col,
            "v": np.array([ex.int(f"v{i}") for i in range(n)], dtype=object),
            "w": np.arange(n, dtype=float)}
    t = Table(data, index="name", cast_strings=not case.get("fixed_width", False))
    hist = [f"Table(name={names}" + (", cast_strings=False)" if case.get("fixed_width") else ")")]
    if case.get("derived"):
        # t = t0 + u (or t0 * 2) built after lookups on t0: addressing must follow the new index column
        if not sweep(ex, t, hist):
            return
        unames = case["derived"]
        if unames == "*2":
            t2 = t * 2
            hist.append("t * 2")
        else:
            nu = len(unames)
            u = Table({"name": np.array(unames, dtype=object), "v": np.array([ex.int(f"uv{i}") for i in range(nu)], dtype=object),
                       "w": np.arange(nu, dtype=float)}, index="name")
            t2 = t + u
            hist.append(f"t + Table(name={unames})")
        if not sweep(ex, t2, hist):
            return
        if unames != "*2" and not write_check(ex, t2, hist):
            return
        sweep(ex, t, hist)
        return
    warm = ex.choose(2)               # whether the cache is built before the first mutation
    if warm and not sweep(ex, t, hist):
        return
    for step in range(case["K"]):
        mus = mutations(t)
        if step == 0 and case.get("first") is not None:
            if case["first"] >= len(mus):
                return
            mu = mus[case["first"]]
        else:
            mu = mus[ex.choose(len(mus))]
        try:
            apply(ex, t, mu, hist)
        except KeyError:
            hist.append(f"{mu} -> KeyError")
            continue
        except (Abort, Inconclusive):
            raise
        except Exception as e:
            ex.fail(f"mutation {mu} raised {type(e).__name__}: {e}", {"history": list(hist)})
            return
        if not sweep(ex, t, hist):
            return
    if n and case.get("write", True):
        if not write_check(ex, t, hist):
            return
        if not sweep(ex, t, hist):
            return
    if len(ex.samples) < 1:
        ex.samples.append({"history": list(hist)})


def cases(tier):
    out = []
    maxn = 4 if tier == "quick" else 5
    builds = ["pure"]
    for n in range(0, maxn + 1):
        for pat in itertools.product(ALPHA, repeat=n):
            # up to renaming of the alphabet: first name is 'a', second new name is 'b'
            seen = []
            for x in pat:
                if x not in seen:
                    seen.append(x)
            if seen != ALPHA[:len(seen)]:
                continue
            K = 2 if (tier != "quick" or n <= 3) else 1
            if K == 2:
                for first in range(16 + 8 * n + 4 * len(seen)):
                    out.append({"build": "pure", "pattern": list(pat), "K": K, "first": first})
            else:
                out.append({"build": "pure", "pattern": list(pat), "K": K})
    out.append({"build": "pure", "pattern": ["x", "a", "x", "a"], "K": 1})
    for pat in (["a"], ["a", "b"], ["a", "a", "b"], ["a", "b", "c"], ["b", "a", "b", "a"]):
        for first in range(16 + 8 * len(pat) + 4 * len(set(pat))):
            out.append({"build": "pure", "pattern": pat, "K": 2 if len(pat) <= 2 else 1, "first": first, "fixed_width": True})
    for pat in (["a"], ["a", "b"], ["a", "b", "a"], ["b", "b"]):
        for un in (["a"], ["c", "a"], ["b", "b", "a"], "*2"):
            out.append({"build": "pure", "pattern": pat, "K": 0, "derived": un})
    for form in ("n", "n::c", "n<<k", "n>>k", "n::c<<k", "n::c>>k"):
        out.append({"mode": "lemma", "form": form, "maxname": 3 if tier == "quick" else 4, "build": "pure"})
    return out

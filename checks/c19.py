"""C19 - MAD-X expressions mean the same deferred as evaluated immediately.

The real MadxEnv builds its two evaluators (deferred over refs, immediate over the
plain data) through the real Lark grammar / MadxEval transformer / refs.py
operator overloads; the function module is replaced by uninterpreted functions
and all variable / element values are symbolic reals.  Programs are all strings
derivable from the grammar up to a depth bound (concrete text: the LALR automaton
needs it).  For every program, on the SAME persistent evaluators (z3, all values):
  * deferred value == immediate value (a division by zero raises when immediate
    and yields NaN when deferred);
  * after fresh symbolic values are assigned to the variables and the element
    attribute through the manager, the previously built deferred expression and a
    re-evaluation of the same text still agree with the immediate evaluator;
  * fully parenthesised programs equal CPython's evaluation of the mirrored term.
"""
import itertools
import math

import z3

from symx.driver import get_xdeps
from symx.values import SymReal, eq, tobool, lift_real
from symx.core import Abort, Inconclusive

ID = "C19"
LEVEL = "model_checking"
FUNCTIONS = [
    "madxutils.py:MadxEval.__init__", "madxutils.py:MadxEval.var", "madxutils.py:MadxEval.call", "madxutils.py:MadxEval.getitem",
    "madxutils.py:MadxEval.getattr", "madxutils.py:MadxEnv.__init__", "refs.py:BaseRef.__add__", "refs.py:BaseRef.__rtruediv__",
    "refs.py:BaseRef.__pow__", "refs.py:BaseRef.__rpow__", "refs.py:CallRef._get_value", "refs.py:TruedivExpr._get_value",
    "tasks.py:Manager.set_value",
]
ASSUMPTIONS = [
    "program text is concrete (enumerated from the grammar); variable, element-attribute values are z3 Reals (floats as reals); functions of the function module are uninterpreted",
    "powers with a non-constant exponent are an uninterpreted function rpow (0 ** negative raises ZeroDivisionError as in Python); products of two symbolic values are uninterpreted and refined on demand",
    "madxutils.math is replaced by the uninterpreted function module before MadxEnv() is constructed, so both evaluators are built by the real MadxEnv.__init__",
]
BOUNDS = {
    "quick": "atoms: 6 NUMBER forms, variables a and b.c, element access q1->k1; all unary/binary programs over atoms (5 operators incl. ^ and **), one- and two-argument calls, "
             "and depth-3 programs from a generated family (~1700 programs), spaced and unspaced text, item and attribute element modes; fully parenthesised twins; sequences of two programs on the same evaluators (166 pairs: one shape with two literals, incl. the hash-colliding -1 / -2, and neighbouring small programs)",
    "thorough": "depth-3 family over all operator pairs, both builds",
}
OUTSIDE = "assignment statements NAME = expr; programs deeper than 3; real libm functions (uninterpreted here)"
REQUIRED_CLASSES = ["programs", "after_change", "zero_division", "python_mirror", "attr_mode", "bound_variable", "cross_spelling", "sequence_on_same_evaluators"]
PROFILE_CASES = 3
TASKS_PER_CHILD = 20

NUMS = ["2", "3.5", ".5", "1e3", "2.5e-1", "1E2"]
VARS = ["a", "b.c"]
ELEM = "q1->k1"
OPS = ["+", "-", "*", "/", "^", "**"]


def note(ex, k, n=1):
    ex.notes[k] = ex.notes.get(k, 0) + n


# programs are trees: ('num', txt) ('var', name) ('elem',) ('un', op, t) ('bin', op, l, r) ('call', name, [args]) ('par', t)
def text(t, sp=""):
    k = t[0]
    if k == "num":
        return t[1]
    if k == "var":
        return t[1]
    if k == "elem":
        return ELEM
    if k == "un":
        return t[1] + text(t[2], sp)
    if k == "bin":
        return text(t[2], sp) + sp + t[1] + sp + text(t[3], sp)
    if k == "call":
        return t[1] + "(" + ("," + sp).join(text(x, sp) for x in t[2]) + ")"
    if k == "par":
        return "(" + text(t[1], sp) + ")"
    raise ValueError(t)


def paren(t):
    """fully parenthesised twin"""
    k = t[0]
    if k in ("num", "var", "elem"):
        return t
    if k == "un":
        return ("par", ("un", t[1], paren(t[2])))
    if k == "bin":
        return ("par", ("bin", t[1], paren(t[2]), paren(t[3])))
    if k == "call":
        return ("call", t[1], [paren(x) for x in t[2]])
    if k == "par":
        return paren(t[1])
    raise ValueError(t)


def pyeval(t, env):
    """CPython evaluation of the (fully parenthesised) term on the same symbols."""
    k = t[0]
    if k == "num":
        return float(t[1])
    if k == "var":
        return env["vars"][t[1]]
    if k == "elem":
        return env["k1"]()
    if k == "par":
        return pyeval(t[1], env)
    if k == "un":
        v = pyeval(t[2], env)
        return -v if t[1] == "-" else +v
    if k == "call":
        return getattr(env["F"], t[1])(*[pyeval(x, env) for x in t[2]])
    a, b = pyeval(t[2], env), pyeval(t[3], env)
    op = t[1]
    if op == "+":
        return a + b
    if op == "-":
        return a - b
    if op == "*":
        return a * b
    if op == "/":
        return a / b
    return a ** b


def programs(tier):
    atoms = [("num", n) for n in NUMS] + [("var", v) for v in VARS] + [("elem",)]
    small = [("num", "2"), ("num", ".5"), ("var", "a"), ("var", "b.c"), ("elem",)]
    out = list(atoms)
    for a in atoms:
        out.append(("un", "-", a))
        out.append(("un", "+", a))
    for op in OPS:
        for a in atoms:
            for b in small:
                out.append(("bin", op, a, b))
    for a in small:
        out.append(("call", "f1", [a]))
        for b in small[:3]:
            out.append(("call", "f2", [a, b]))
    # depth 3 family: precedence / associativity probes
    d2 = []
    for op1 in OPS:
        for op2 in OPS:
            x, y, z = ("var", "a"), ("var", "b.c"), ("num", "2")
            d2.append(("bin", op2, ("bin", op1, x, y), z))                    # a op1 b.c op2 2  (left assoc by text)
            d2.append(("bin", op1, x, ("par", ("bin", op2, y, z))))
            d2.append(("bin", op1, ("un", "-", x), ("bin", op2, y, ("elem",))) if False else ("bin", op1, ("un", "-", x), y))
            d2.append(("bin", op1, ("call", "f1", [x]), ("un", "-", z)))
    out += d2
    # literal chains with numbers that are not dyadic fractions: a tree that regroups the constants
    # (a + (c1 + c2)) differs from the text's grouping ((a + c1) + c2) even over the reals, because
    # c1 + c2 is rounded once when it is computed on floats
    for op1 in ("+", "-", "*", "/"):
        for op2 in ("+", "-", "*", "/"):
            for x in (("var", "a"), ("elem",)):
                out.append(("bin", op2, ("bin", op1, x, ("num", "0.1")), ("num", "0.2")))
            out.append(("bin", op2, ("bin", op1, ("num", "0.1"), ("var", "a")), ("num", "0.7")))
    out.append(("call", "f1", [("bin", "+", ("bin", "+", ("var", "b.c"), ("num", "1e16")), ("un", "-", ("num", "1e16")))]))
    out += [("un", "-", ("un", "-", ("var", "a"))), ("un", "+", ("un", "-", ("num", "1e3"))),
            ("bin", "^", ("num", "2"), ("un", "-", ("num", "2"))), ("bin", "+", ("un", "+", ("num", "1")), ("bin", "^", ("num", "2"), ("un", "-", ("num", "2")))),
            ("call", "f2", [("bin", "+", ("var", "a"), ("num", "1")), ("call", "f1", [("elem",)])]),
            ("bin", "/", ("var", "a"), ("par", ("bin", "-", ("var", "a"), ("var", "a")))),
            ("bin", "/", ("num", "1"), ("bin", "*", ("var", "b.c"), ("num", "0") if False else ("var", "a"))),
            ("bin", "*", ("elem",), ("elem",)), ("bin", "-", ("par", ("bin", "-", ("var", "a"), ("var", "b.c"))), ("elem",))]
    if tier != "quick":
        for op1 in OPS:
            for op2 in OPS:
                for op3 in ("+", "*", "^"):
                    out.append(("bin", op3, ("bin", op2, ("bin", op1, ("var", "a"), ("num", "3.5")), ("var", "b.c")), ("elem",)))
    return out


def twin_pairs():
    """(first, second): programs of one shape that differ in one literal - among them literals whose values
    collide in CPython's hash (-1 / -2) - and neighbouring programs of the family"""
    lits = [("1", "2"), ("2", "1"), ("1.0", "2.0"), ("1e0", "2"), ("3", "2.5e-1")]
    a, bc, el = ("var", "a"), ("var", "b.c"), ("elem",)
    out = []

    def neg(x):
        return ("un", "-", ("num", x))
    for l1, l2 in lits:
        for mk in (lambda L: ("bin", "^", a, L), lambda L: ("bin", "**", bc, L), lambda L: ("bin", "*", L, a), lambda L: ("bin", "+", el, L),
                   lambda L: ("bin", "-", a, L), lambda L: ("bin", "/", a, L), lambda L: ("call", "f2", [a, L]), lambda L: ("call", "f1", [L]),
                   lambda L: ("bin", "^", ("par", ("bin", "+", a, bc)), L), lambda L: ("bin", "*", ("bin", "+", a, L), bc), lambda L: L):
            out.append((mk(neg(l1)), mk(neg(l2))))
            out.append((mk(("num", l1)), mk(("num", l2))))
    sm = [a, bc, el, ("num", "2"), ("un", "-", a), ("bin", "+", a, bc), ("bin", "*", a, ("num", "2")), ("call", "f1", [a])]
    for x in sm:
        for y in sm:
            if x != y:
                out.append((x, y))
    return out


class FMod:
    """uninterpreted function module"""

    def __init__(self, ex):
        self._f1 = ex.func("f1", 1, "real")
        self._f2 = ex.func("f2", 2, "real")

    def f1(self, x):
        return self._f1(x)

    def f2(self, x, y):
        return self._f2(x, y)


def outcome(f):
    try:
        return ("val", f())
    except (Abort, Inconclusive):
        raise
    except ZeroDivisionError:
        return ("zero",)
    except Exception as e:
        return ("raise", type(e).__name__, str(e)[:80])


def is_nan(v):
    return isinstance(v, float) and v != v


def agree(ex, dv, iv, what, det):
    """deferred outcome vs immediate outcome"""
    if iv[0] == "zero":
        note(ex, "zero_division")
        if not (dv[0] == "val" and is_nan(dv[1])) and dv[0] != "zero":
            ex.fail(f"{what}: immediate evaluation divides by zero, deferred gives {dv}", det)
            return False
        return True
    if dv[0] != "val" or iv[0] != "val":
        if dv[:2] != iv[:2]:
            ex.fail(f"{what}: deferred {dv} vs immediate {iv}", det)
            return False
        return True
    if is_nan(dv[1]) or is_nan(iv[1]):
        # a NaN produced by a nested deferred division by zero propagates
        if not (is_nan(dv[1]) and is_nan(iv[1])):
            ex.fail(f"{what}: NaN mismatch deferred {dv[1]!r} vs immediate {iv[1]!r}", det)
            return False
        return True
    return ex.prove(eq(dv[1], iv[1]), f"{what}: deferred value differs from immediate evaluation", det)


def run_case(ex, case):
    xd = get_xdeps(case["build"])
    import xdeps.madxutils as MX
    F = FMod(ex)
    progs = programs(case["tier"])[case["lo"]:case["hi"]]
    mode = case["mode"]
    if mode == "item":
        MX.math = F
        try:
            env = MX.MadxEnv()
        finally:
            MX.math = math
        V, E = env._variables, env._elements
        E["q1"] = {"k1": ex.real("k1")}
        madexpr, madeval = env.madexpr, env.madeval
        vref, eref = env._vref, env._eref
        k1 = lambda: E["q1"]["k1"]
        setk1 = lambda v: eref["q1"].__setitem__("k1", v)
        if case.get("cross"):
            # the element type MadxEnv.read_state stores answers to both spellings; the element
            # attribute is changed through the spelling the expression was NOT built with
            E["q1"] = xd.utils.AttrDict(k1=E["q1"]["k1"])
            setk1 = lambda v: setattr(eref["q1"], "k1", v)
            note(ex, "cross_spelling")
    else:
        note(ex, "attr_mode")
        from collections import defaultdict
        V = defaultdict(lambda: 0)

        class El:
            pass
        q1 = El()
        q1.k1 = ex.real("k1")
        E = {"q1": q1}
        m = xd.Manager()
        vref, eref, fref = m.ref(V, "v"), m.ref(E, "e"), m.ref(F, "f")
        madexpr = MX.MadxEval(vref, fref, eref, get="attr").eval
        madeval = MX.MadxEval(V, F, E, get="attr").eval
        k1 = lambda: E["q1"].k1
        setk1 = lambda v: setattr(eref["q1"], "k1", v)
        if case.get("cross"):
            E["q1"] = xd.utils.AttrDict(k1=q1.k1)
            setk1 = lambda v: eref["q1"].__setitem__("k1", v)
            note(ex, "cross_spelling")
    V["a"] = ex.real("a")
    V["b.c"] = ex.real("bc")
    sp = case["sp"]
    # one program per path (forks on zero divisors must not multiply across programs)
    pick = 0 if case.get("seq") else ex.choose(len(progs))
    if case.get("seq"):
        # program sequences on the SAME evaluators: a sibling program (same shape, another literal; or the
        # neighbour in the family) is parsed, built and evaluated first, then the program under test is checked
        pairs = twin_pairs()[case["lo"]:case["hi"]]
        pick = ex.choose(len(pairs))
        first, second = pairs[pick]
        note(ex, "sequence_on_same_evaluators")
        for tree in (first, paren(first)):
            try:
                d0 = madexpr(text(tree, sp))
                madeval(text(tree, sp))
                if hasattr(d0, "_get_value"):
                    d0._get_value()
            except (Abort, Inconclusive):
                raise
            except ZeroDivisionError:
                pass
        progs = [second]
        pick = 0
    for i, t in list(enumerate(progs))[pick:pick + 1]:
        for variant, tree in (("plain", t), ("paren", paren(t))):
            s = text(tree, sp)
            det = {"program": s, "mode": mode}
            note(ex, "programs")
            try:
                dexpr = madexpr(s)
            except (Abort, Inconclusive):
                raise
            except ZeroDivisionError:
                dexpr = None       # constant folding of a literal division by zero
            except Exception as e:
                ex.fail(f"deferred parse/build of {s!r} raised {type(e).__name__}: {e}", det)
                return
            iv = outcome(lambda: madeval(s))
            if dexpr is None:
                if iv[0] != "zero":
                    ex.fail(f"{s!r}: building the deferred expression divides by zero but immediate evaluation gives {iv}", det)
                    return
                continue
            dv = outcome(lambda: dexpr._get_value() if hasattr(dexpr, "_get_value") else dexpr)
            if not agree(ex, dv, iv, f"{s!r}", det):
                return
            if variant == "paren" and iv[0] == "val":
                note(ex, "python_mirror")
                pv = outcome(lambda: pyeval(tree, {"vars": V, "k1": k1, "F": F}))
                if pv[0] == "val" and not is_nan(iv[1]):
                    if not ex.prove(eq(iv[1], pv[1]), f"{s!r}: fully parenthesised program differs from Python's evaluation of the mirrored term", det):
                        return
            # variables change through the manager; same evaluators, same text, same deferred object
            if i % case.get("change_every", 1) == 0 and variant == "plain":
                bound = hasattr(dexpr, "_get_value") and dv[0] == "val" and not is_nan(dv[1])
                if bound:
                    try:
                        vref["yy"] = dexpr          # a variable defined by the deferred expression (what MadxEnv.read_state does)
                    except (Abort, Inconclusive):
                        raise
                    except ZeroDivisionError:
                        bound = False
                old = (V["a"], V["b.c"], k1())
                try:
                    vref["a"] = ex.real(ex.name("a_new"))
                    vref["b.c"] = ex.real(ex.name("bc_new"))
                    setk1(ex.real(ex.name("k1_new")))
                except ZeroDivisionError:
                    # the bound variable's task raised on the new values (e.g. 0 ** negative): immediate evaluation must raise too
                    iv2 = outcome(lambda: madeval(s))
                    if iv2[0] != "zero":
                        # an intermediate state (only some variables updated) raised: not comparable, drop the path
                        raise Abort()
                    return
                note(ex, "after_change")
                iv2 = outcome(lambda: madeval(s))
                dv2 = outcome(lambda: dexpr._get_value() if hasattr(dexpr, "_get_value") else dexpr)
                if not agree(ex, dv2, iv2, f"{s!r} after the variables changed (same deferred expression)", det):
                    return
                if bound and iv2[0] == "val" and not is_nan(iv2[1]) and dv2[0] == "val" and not is_nan(dv2[1]):
                    note(ex, "bound_variable")
                    if not ex.prove(eq(V["yy"], iv2[1]), f"{s!r}: the variable defined by the deferred expression is stale after the variables changed through the manager", det):
                        return
                if bound:
                    try:
                        env_m = vref._manager
                        env_m.unregister(vref["yy"])
                    except Exception:
                        pass
                dexpr3 = madexpr(s)
                dv3 = outcome(lambda: dexpr3._get_value() if hasattr(dexpr3, "_get_value") else dexpr3)
                if not agree(ex, dv3, iv2, f"{s!r} after the variables changed (text re-evaluated on the same evaluators)", det):
                    return
    if len(ex.samples) < 1:
        ex.samples.append({"programs": [text(t, sp) for t in progs[:5]], "mode": mode})


def cases(tier):
    n = len(programs(tier))
    out = []
    chunk = 24
    builds = ["pure"] if tier == "quick" else ["pure", "compiled"]
    for b in builds:
        for lo in range(0, n, chunk):
            out.append({"build": b, "tier": tier, "lo": lo, "hi": min(n, lo + chunk), "mode": "item", "sp": "", "change_every": 1})
        for lo in range(0, n, chunk * 4):
            out.append({"build": b, "tier": tier, "lo": lo, "hi": min(n, lo + chunk), "mode": "attr", "sp": " ", "change_every": 2})
        for lo in range(chunk, n, chunk * 4):
            out.append({"build": b, "tier": tier, "lo": lo, "hi": min(n, lo + chunk), "mode": "item", "sp": "", "change_every": 1, "cross": True})
        for lo in range(2 * chunk, n, chunk * 6):
            out.append({"build": b, "tier": tier, "lo": lo, "hi": min(n, lo + chunk), "mode": "attr", "sp": "", "change_every": 1, "cross": True})
        npairs = len(twin_pairs())
        for k, lo in enumerate(range(0, npairs, 8)):
            out.append({"build": b, "tier": tier, "lo": lo, "hi": min(npairs, lo + 8), "mode": "attr" if k % 4 == 3 else "item", "sp": "", "change_every": 1, "seq": True})
    return out

#!/bin/bash
# Build the verification environment offline: a venv overlaying /venv (which has
# numpy/scipy/lark/cython and the repo's deps) plus z3-solver from the wheelhouse.
set -e
cd "$(dirname "$0")"
VENV=/verif/.venv
exec 9>/verif/.venv.lock
flock 9
if [ ! -x "$VENV/bin/python" ] || ! "$VENV/bin/python" -c "import z3, numpy" 2>/dev/null; then
  rm -rf "$VENV"
  /venv/bin/python -m venv "$VENV"
  SP=$("$VENV/bin/python" -c "import sysconfig; print(sysconfig.get_paths()['purelib'])")
  echo "import site; site.addsitedir('/venv/lib/python3.12/site-packages')" > "$SP/_overlay_venv.pth"
  PIP_NO_INDEX=1 "$VENV/bin/pip" install -q --no-index --find-links /opt/veriftools/wheels z3-solver cvc5 >/dev/null 2>&1 || \
  PIP_NO_INDEX=1 "$VENV/bin/pip" install -q --no-index --find-links /opt/veriftools/wheels z3-solver
  "$VENV/bin/python" -c "import z3, numpy; print('verif venv ready: z3', z3.get_version_string())"
fi

#!/bin/bash
# usage: tools/confirm_mutant.sh <seed-id> <dir with patch.diff demo.py README.md> <property>
# Confirms in a fresh scratch worktree of /repo HEAD that: demo passes without the patch,
# the patch applies, the existing suite is unchanged with it, demo fails with it.
ID="$1"; SRC="$2"; PROP="$3"
W=/tmp/confirm/$ID
rm -rf $W; mkdir -p /tmp/confirm
git -C /repo worktree add -q --detach $W HEAD || exit 3
cleanup() { git -C /repo worktree remove --force $W 2>/dev/null; rm -rf $W; }
trap cleanup EXIT
cp /repo/xdeps/refs.cpython-312-x86_64-linux-gnu.so $W/xdeps/
cp $SRC/demo.py $W/demo.py
cd $W
/venv/bin/python demo.py > /tmp/confirm/$ID.demo_clean.out 2>&1; D0=$?
git apply $SRC/patch.diff || { echo "$ID: patch does not apply"; exit 3; }
if git diff --name-only | grep -q refs.py; then /venv/bin/python setup.py build_ext --inplace -q >/dev/null 2>&1; rm -rf build; fi
/venv/bin/python -m pytest -q -p no:cacheprovider --timeout=900 > /tmp/confirm/$ID.tests.out 2>&1
T=$(tail -1 /tmp/confirm/$ID.tests.out)
/venv/bin/python demo.py > /tmp/confirm/$ID.demo_mut.out 2>&1; D1=$?
echo "$ID: demo clean exit=$D0, demo mutant exit=$D1, tests: $T"
OK=0
if [ $D0 -eq 0 ] && [ $D1 -ne 0 ] && echo "$T" | grep -q "1 failed, 76 passed"; then OK=1; fi
if [ $OK -eq 1 ]; then
  mkdir -p /verif/seeded/$ID
  cp $SRC/patch.diff $SRC/demo.py /verif/seeded/$ID/
  [ -f $SRC/README.md ] && cp $SRC/README.md /verif/seeded/$ID/README.md
  python3 - <<PY
import json
json.dump({"id":"$ID","property":"$PROP","source":"independent sub-agent given only the property text and a scratch worktree",
 "needs_to_manifest":"see README.md",
 "confirmed":{"demo_on_clean_tree_exit":$D0,"demo_with_patch_exit":$D1,"test_suite_with_patch":"$T".strip(),
   "how":"tools/confirm_mutant.sh: fresh scratch worktree of /repo HEAD, demo.py before/after git apply, .so rebuilt when refs.py changed, full pytest"},
 "detected_by":"(filled in by tools/run_seeded.py)"}, open("/verif/seeded/$ID/meta.json","w"), indent=1)
PY
  echo "$ID: CONFIRMED -> /verif/seeded/$ID"
else
  echo "$ID: NOT confirmed"
fi

#!/bin/bash
# usage: tools/try_mutant.sh <patch.diff> <ID> [<ID>...]   (applies to /repo, runs quick checks, reverts)
P="$(realpath "$1")"; shift
cd /verif
# evidence of runs against a mutated tree must never land in /verif/evidence
export VERIF_EVIDENCE_DIR=/tmp/mut_evidence
git -C /repo apply "$P" || { echo "patch does not apply"; exit 3; }
trap 'git -C /repo checkout -- . ' EXIT
for id in "$@"; do
  timeout ${MUT_TIMEOUT:-900} ./check $id ${TIER:+--tier $TIER} > /tmp/mut_$id.out 2>&1; rc=$?
  echo "== $id exit=$rc"; grep -m3 "^VIOLATION" /tmp/mut_$id.out | cut -c1-300; grep -m2 "INCONCLUSIVE" /tmp/mut_$id.out | cut -c1-300
done

"""Regenerate MANIFEST.json from the check modules present under checks/."""
import importlib
import json
import os
import sys

VERIF = os.path.dirname(os.path.dirname(os.path.abspath(__file__)))
sys.path.insert(0, VERIF)
BASE = ("cd /repo && /venv/bin/python -m pytest -ra -q -p no:cacheprovider --timeout=900 "
        "--continue-on-collection-errors")

PENDING_REASON = {}
NOT_APPLICABLE = {}


def main():
    checks = []
    na = []
    for i in range(1, 21):
        pid = f"C{i:02d}"
        path = os.path.join(VERIF, "checks", pid.lower() + ".py")
        if not os.path.exists(path):
            na.append({"property_id": pid, "reason": NOT_APPLICABLE.get(
                pid, "no check registered yet: the solver-based harness planned in DESIGN.md section 3 is not built/committed; nothing is claimed for this property")})
            continue
        mod = importlib.import_module(f"checks.{pid.lower()}")
        if getattr(mod, "NOT_CLAIMED", None):
            na.append({"property_id": pid, "reason": mod.NOT_CLAIMED})
            continue
        checks.append({
            "property_id": pid,
            "quick_cmd": f"./check {pid} --tier quick",
            "thorough_cmd": f"./check {pid} --tier thorough",
            "evidence_file": f"/verif/evidence/{pid}.json",
            "replay_cmd_template": f"./check {pid} --replay {{path}}",
            "engine": "symx",
            "level_claimed": {
                "category": getattr(mod, "LEVEL", "model_checking"),
                "text": mod.LEVEL_TEXT if hasattr(mod, "LEVEL_TEXT") else (
                    "Bounded symbolic execution of the real xdeps functions: the shape space stated in the bounds is explored "
                    "exhaustively as engine decisions and, on every path, z3 decides the property's assertion for all values of the "
                    "symbolic inputs; counterexamples are replayed concretely on the real code before being reported. "
                    "Bounds: " + mod.BOUNDS.get("quick", "")),
                "design_ref": f"DESIGN.md section 3, {pid}",
            },
            "level_note": "; ".join(getattr(mod, "ASSUMPTIONS", [])) or "see DESIGN.md",
            "technique": getattr(mod, "TECHNIQUE", "symbolic execution of the real Python code over z3 terms (own engine symx), SMT-decided assertions per path, concrete replay of models"),
        })
    man = {
        "version": 1,
        "setup_cmd": "./setup.sh",
        "hooks": {
            "guard": "XDEPS_VERIF",
            "enable": "no source hooks are needed: checks load /repo's current working tree (refs.py from source and freshly cythonized) and instrument at load time in the harness process only; XDEPS_VERIF=1 is exported by ./check but read by nothing in /repo",
            "baseline_off_cmd": BASE,
            "source_commits": [],
            "add_only": True,
        },
        "engines": [{
            "name": "symx",
            "path": "/verif/symx",
            "serves_properties": [c["property_id"] for c in checks],
            "kind_free_text": "decision-prefix re-execution symbolic executor for Python over z3 (SymInt/SymReal/SymBool/uninterpreted functions), case-parallel driver, concrete replay, known-findings matching",
        }],
        "checks": checks,
        "not_applicable": na,
        "notes": "Exit codes of every check: 0 = explored to exhaustion within the stated bounds, all assertions unsat; 1 = reproduced violation (VIOLATION line); 2 = inconclusive (unknown / budget / unreproduced model / engine error). Genuine defects found on the pinned tree were repaired by 'fix:' commits in /repo (see known_findings.json, status fixed) except the C01 false-ordering-cycle finding (open).",
    }
    with open(os.path.join(VERIF, "MANIFEST.json"), "w") as fh:
        json.dump(man, fh, indent=1)
    print("claimed:", [c["property_id"] for c in checks])
    print("not claimed:", [n["property_id"] for n in na])


if __name__ == "__main__":
    main()

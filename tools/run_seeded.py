"""Run every seeded change against its property's quick check (on a scratch worktree of /repo,
never on /repo itself) and record the outcome in seeded/<id>/meta.json."""
import json, os, subprocess, sys, glob
VERIF = os.path.dirname(os.path.dirname(os.path.abspath(__file__)))
WT = "/tmp/seedwt"
BLIND = {  # how the change was first met: recorded by hand while working (see DESIGN.md section 6)
}
def sh(*a, **k):
    return subprocess.run(a, capture_output=True, text=True, **k)
def main(ids):
    sh("git", "-C", "/repo", "worktree", "remove", "--force", WT)
    sh("git", "-C", "/repo", "worktree", "add", "--detach", WT, "HEAD")
    try:
        for sid in ids:
            d = os.path.join(VERIF, "seeded", sid)
            meta = json.load(open(os.path.join(d, "meta.json")))
            prop = meta["property"]
            sh("git", "-C", WT, "checkout", "--", ".")
            r = sh("git", "-C", WT, "apply", os.path.join(d, "patch.diff"))
            if r.returncode:
                print(sid, "patch does not apply", r.stderr[:200]); continue
            env = dict(os.environ, XDEPS_REPO=WT, VERIF_EVIDENCE_DIR="/tmp/seed_evidence")
            out = sh(os.path.join(VERIF, "check"), prop, "--tier", "quick", env=env, timeout=1500)
            viol = [l for l in out.stdout.splitlines() if l.startswith("VIOLATION")]
            if isinstance(meta.get("detected_by"), str):
                meta["detected_by_note"] = meta["detected_by"]
            meta["detected_by"] = {prop: {"exit": out.returncode, "first_violation": viol[0][:300] if viol else None,
                                          "repo_head": sh("git", "-C", "/repo", "log", "--oneline", "-1").stdout.strip(),
                                          "verif_head": sh("git", "-C", VERIF, "log", "--oneline", "-1").stdout.strip()}}
            meta["what_i_ran"] = f"tools/run_seeded.py: patch applied to a scratch worktree of /repo HEAD, XDEPS_REPO=<worktree> ./check {prop} --tier quick"
            json.dump(meta, open(os.path.join(d, "meta.json"), "w"), indent=1)
            print(sid, prop, "exit", out.returncode, (viol[0][:160] if viol else ""), flush=True)
    finally:
        sh("git", "-C", "/repo", "worktree", "remove", "--force", WT)
if __name__ == "__main__":
    ids = sys.argv[1:] or sorted(os.path.basename(p) for p in glob.glob(os.path.join(VERIF, "seeded", "*")))
    main(ids)

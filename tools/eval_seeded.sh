#!/bin/bash
# usage: tools/eval_seeded.sh <seed-id> <src dir> <prop> [extra check ids...]
ID="$1"; SRC="$2"; PROP="$3"; shift 3
cd /verif
tools/confirm_mutant.sh $ID $SRC $PROP 2>&1 | grep -v WARNING | tail -2
if [ -d seeded/$ID ]; then
  MUT_TIMEOUT=1200 tools/try_mutant.sh seeded/$ID/patch.diff $PROP "$@" 2>&1 | grep -v WARNING | cut -c1-260
fi

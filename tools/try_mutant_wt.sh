#!/bin/bash
# usage: tools/try_mutant_wt.sh <patch.diff|-> <ID> [<ID>...]
# like try_mutant.sh but on a private scratch worktree of /repo (XDEPS_REPO), so that it can run
# while /repo is in use; "-" as patch runs the checks on the clean worktree
P="$1"; shift
cd "$(dirname "$0")/.."
WT=/tmp/wt_$$
git -C /repo worktree add --detach $WT HEAD -q || exit 3
trap 'git -C /repo worktree remove --force '$WT EXIT
if [ "$P" != "-" ]; then git -C $WT apply "$(realpath "$P")" || { echo "patch does not apply"; exit 3; }; fi
export VERIF_EVIDENCE_DIR=/tmp/mut_evidence_$$ XDEPS_REPO=$WT
for id in "$@"; do
  timeout ${MUT_TIMEOUT:-900} ./check $id ${TIER:+--tier $TIER} > /tmp/mutwt_$id.out 2>&1; rc=$?
  echo "== $id exit=$rc"; grep -m3 "^VIOLATION" /tmp/mutwt_$id.out | cut -c1-300; grep -m2 "INCONCLUSIVE\|^$id quick\|^$id thorough" /tmp/mutwt_$id.out | cut -c1-400
done
rm -rf /tmp/mut_evidence_$$

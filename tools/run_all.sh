#!/bin/bash
# run every claimed check's quick command on the current tree, sequentially; summary at the end
cd /verif
for id in $(python3 -c "import json; print(' '.join(c['property_id'] for c in json.load(open('MANIFEST.json'))['checks']))"); do
  s=$(date +%s); timeout 1500 ./check $id --tier ${TIER:-quick} > /tmp/all_$id.out 2>&1; rc=$?; e=$(date +%s)
  echo "$id exit=$rc $((e-s))s $(grep -c '^VIOLATION' /tmp/all_$id.out) viol $(grep -m1 INCONCLUSIVE /tmp/all_$id.out | cut -c1-150)"
done
